// Command simdrv is the per-property check driver:
//
//	scratch copy of /repo's working tree -> instrument -> build the harness
//	-> determinism self-test -> seeded exploration in worker processes
//	-> fresh-process replay confirmation of every violation -> evidence.
//
// Exit 0: the property held on everything explored (KNOWN-FINDING lines are
// printed for listed open findings that were observed). Exit 1: at least one
// confirmed violation, each with a "VIOLATION property=<id> replay=<path>"
// line. Exit 2: machinery trouble (build failure, watchdog, irreproducible
// replay, determinism mismatch) - loud, and never phrased as a violation.
package main

import (
	"encoding/json"
	"flag"
	"fmt"
	"os"
	"os/exec"
	"path/filepath"
	"runtime"
	"sort"
	"strconv"
	"strings"
	"sync"
	"sync/atomic"
	"syscall"
	"time"
)

// verifDir and repoDir can be redirected (VERIF_DIR, VERIF_REPO) so that a
// background run can work from snapshots; the registered checks use the defaults.
var (
	verifDir = envOr("VERIF_DIR", "/verif")
	repoDir  = envOr("VERIF_REPO", "/repo")
)

func envOr(k, d string) string {
	if v := os.Getenv(k); v != "" {
		return v
	}
	return d
}

const (
	instrPkg = "clone,io/fasta,io/uniprot,transform/codon,random"
	// dependencies of the above: only functions that bear concurrency or touch
	// package-level state are instrumented there, pure functions are left alone
	helperPkg = "seqhash,transform,checks,io/genbank,io/gff,io/polyjson,primers,transform/variants"
	fullFns   = "Optimize,OptimizeTable,ProteinSequence,getConstructs,recurseLigate,CircularLigate,ParseConcurrent,Parse,Read,GetCodonTable"
)

type workerCfg struct {
	Property  string          `json:"property"`
	Mode      string          `json:"mode"`
	Tier      string          `json:"tier"`
	VerifSeed uint64          `json:"verif_seed"`
	Worker    int             `json:"worker"`
	NWorkers  int             `json:"nworkers"`
	Runs      int             `json:"runs"`
	Indices   []int           `json:"indices,omitempty"`
	OutFile   string          `json:"out_file"`
	ReplayDir string          `json:"replay_dir"`
	Replay    string          `json:"replay,omitempty"`
	Findings  map[string]bool `json:"findings"`
	MaxProcs  int             `json:"maxprocs"`
	MaxViol   int             `json:"max_violations"`
	ShrinkS   int             `json:"shrink_seconds"`
	Isolate   bool            `json:"isolate,omitempty"`
	WallS     int             `json:"wall_budget_seconds"`
}

type summary struct {
	Worker      int               `json:"worker"`
	MaxProcs    int               `json:"maxprocs"`
	Runs        int               `json:"runs"`
	Steps       int64             `json:"steps"`
	SimTimeNs   int64             `json:"sim_time_ns"`
	WallS       float64           `json:"wall_s"`
	Counters    map[string]int64  `json:"counters"`
	Strategies  map[string]int64  `json:"strategies"`
	Shapes      []uint64          `json:"shapes"`
	Schedules   []uint64          `json:"schedules"`
	Nontrivial  int               `json:"nontrivial"`
	Known       map[string]int64  `json:"known"`
	KnownDetail map[string]string `json:"known_detail"`
	Violations  []string          `json:"violations"`
	Machinery   []string          `json:"machinery"`
	Samples     []interface{}     `json:"samples"`
	Determinism map[string]string `json:"determinism"`
	Rule        string            `json:"rule"`
	RealCode    []string          `json:"real_code"`
	Stubs       []string          `json:"stubs"`
}

type finding struct {
	Property string `json:"property"`
	ID       string `json:"id"`
	Status   string `json:"status"` // open | fixed
	What     string `json:"what"`
	Commit   string `json:"commit,omitempty"`
}

type findingsFile struct {
	Findings []finding `json:"findings"`
}

const errCrossBubble = "state shared across simulated runs"

var isolate bool

func die(code int, format string, a ...interface{}) {
	if msg := fmt.Sprintf(format, a...); strings.Contains(msg, errCrossBubble) && !isolate {
		// The code under test keeps goroutines or channels alive from one call to the next.
		// They cannot cross from one run's bubble into the next, but they can live and die
		// with a process: start over with one process per simulated run.
		fmt.Printf("simdrv: note: %s\n", msg)
		fmt.Printf("simdrv: note: starting over with one process per simulated run (-isolate): slower, no state is carried from one run to the next, and the clause \"no goroutine is left blocked when the call is over\" is not judged because an idle worker pool looks the same\n")
		cleanup()
		cmd := exec.Command(os.Args[0], append([]string{"-isolate"}, os.Args[1:]...)...)
		cmd.Stdout, cmd.Stderr, cmd.Stdin = os.Stdout, os.Stderr, os.Stdin
		if err := cmd.Run(); err != nil {
			if ee, ok := err.(*exec.ExitError); ok {
				os.Exit(ee.ExitCode())
			}
			fmt.Printf("MACHINERY-FAILURE: could not start over: %v\n", err)
			os.Exit(2)
		}
		os.Exit(0)
	}
	fmt.Fprintf(os.Stderr, "simdrv: "+format+"\n", a...)
	fmt.Printf("MACHINERY-FAILURE: "+format+"\n", a...)
	cleanup()
	os.Exit(code)
}

var scratch string
var keep bool

func cleanup() {
	if scratch != "" && !keep {
		os.RemoveAll(scratch)
	}
}

func goEnv() []string {
	env := os.Environ()
	out := env[:0]
	for _, e := range env {
		if strings.HasPrefix(e, "GOFLAGS=") || strings.HasPrefix(e, "GOPROXY=") || strings.HasPrefix(e, "GOSUMDB=") || strings.HasPrefix(e, "GOTOOLCHAIN=") || strings.HasPrefix(e, "GOMAXPROCS=") {
			continue
		}
		out = append(out, e)
	}
	return append(out, "GOFLAGS=-mod=mod", "GOPROXY=off", "GOSUMDB=off", "GOTOOLCHAIN=local")
}

func goTool() string {
	if p, err := exec.LookPath("go1.26.8"); err == nil {
		return p
	}
	p := "/opt/veriftools/go1.26.8/bin/go"
	if _, err := os.Stat(p); err == nil {
		return p
	}
	die(2, "go1.26.8 toolchain not found")
	return ""
}

func run(dir string, env []string, name string, args ...string) (string, error) {
	cmd := exec.Command(name, args...)
	cmd.Dir = dir
	cmd.Env = env
	out, err := cmd.CombinedOutput()
	return string(out), err
}

// copyTree copies the non-test Go sources (and go.mod/go.sum) of /repo's
// current working tree; with all=true it copies everything except .git.
func copyTree(dst string, all bool) error {
	return filepath.Walk(repoDir, func(p string, info os.FileInfo, err error) error {
		if err != nil {
			return err
		}
		rel, _ := filepath.Rel(repoDir, p)
		if rel == "." {
			return nil
		}
		if info.IsDir() {
			if info.Name() == ".git" {
				return filepath.SkipDir
			}
			return os.MkdirAll(filepath.Join(dst, rel), 0o755)
		}
		if !all {
			n := info.Name()
			if !(strings.HasSuffix(n, ".go") && !strings.HasSuffix(n, "_test.go")) && n != "go.mod" && n != "go.sum" {
				return nil
			}
		}
		if !info.Mode().IsRegular() {
			return nil
		}
		b, err := os.ReadFile(p)
		if err != nil {
			return err
		}
		return os.WriteFile(filepath.Join(dst, rel), b, 0o644)
	})
}

func buildHarness(prop string) string {
	var err error
	scratch, err = os.MkdirTemp("", "verif-"+prop+"-")
	if err != nil {
		die(2, "mktemp: %v", err)
	}
	poly := filepath.Join(scratch, "poly")
	os.MkdirAll(poly, 0o755)
	if err := copyTree(poly, false); err != nil {
		die(2, "copy of /repo failed: %v", err)
	}
	instr := filepath.Join(verifDir, ".build", "instr")
	if _, err := os.Stat(instr); err != nil {
		die(2, "instrumenter not built (run MANIFEST.setup_cmd): %v", err)
	}
	if out, err := run(scratch, os.Environ(), instr, "-root", poly, "-pkgs", instrPkg, "-helperpkgs", helperPkg, "-full", fullFns, "-report", filepath.Join(scratch, "instr.json")); err != nil {
		die(2, "instrumentation failed: %v\n%s", err, out)
	}
	mod, err := os.ReadFile(filepath.Join(verifDir, "harness", "go.mod"))
	if err != nil {
		die(2, "%v", err)
	}
	mod = []byte(strings.Replace(string(mod), "/nonexistent/poly-scratch", poly, 1))
	os.WriteFile(filepath.Join(scratch, "harness.mod"), mod, 0o644)
	sum, _ := os.ReadFile(filepath.Join(repoDir, "go.sum"))
	os.WriteFile(filepath.Join(scratch, "harness.sum"), sum, 0o644)
	bin := filepath.Join(scratch, "worker.test")
	out, err := run(filepath.Join(verifDir, "harness"), goEnv(), goTool(), "test", "-c", "-trimpath", "-modfile="+filepath.Join(scratch, "harness.mod"), "-o", bin, "./worker")
	if err != nil {
		die(2, "harness build against the instrumented copy of /repo failed: %v\n%s", err, out)
	}
	return bin
}

func runWorker(bin string, cfg workerCfg, timeout time.Duration) (*summary, error) {
	cfgPath := cfg.OutFile + ".cfg"
	b, _ := json.Marshal(cfg)
	if err := os.WriteFile(cfgPath, b, 0o644); err != nil {
		return nil, err
	}
	cmd := exec.Command("/bin/sh", "-c", "ulimit -v 12000000; exec \"$0\" -test.run '^TestWorker$' -test.timeout 0 -test.count 1", bin)
	cmd.Dir = scratch
	// temporary files of the workers live and die with the scratch directory, also when a
	// worker is killed or has to leave through os.Exit
	wtmp := filepath.Join(filepath.Dir(cfg.OutFile), "tmp")
	os.MkdirAll(wtmp, 0o755)
	env := append(goEnv(), "VERIF_WORKER_CFG="+cfgPath, "TMPDIR="+wtmp)
	if cfg.MaxProcs > 0 {
		env = append(env, "GOMAXPROCS="+strconv.Itoa(cfg.MaxProcs))
	}
	cmd.Env = env
	logf, _ := os.Create(cfg.OutFile + ".log")
	cmd.Stdout, cmd.Stderr = logf, logf
	if err := cmd.Start(); err != nil {
		return nil, err
	}
	done := make(chan error, 1)
	go func() { done <- cmd.Wait() }()
	var werr error
	select {
	case werr = <-done:
	case <-time.After(timeout):
		cmd.Process.Signal(syscall.SIGQUIT) // goroutine dump into the log
		select {
		case <-done:
		case <-time.After(20 * time.Second):
			cmd.Process.Kill()
			<-done
		}
		logf.Close()
		lb, _ := os.ReadFile(cfg.OutFile + ".log")
		keepDir := filepath.Join(verifDir, "replays", "_machinery")
		os.MkdirAll(keepDir, 0o755)
		stamp := fmt.Sprintf("%s-w%d-%d-watchdog", cfg.Property, cfg.Worker, time.Now().Unix())
		os.WriteFile(filepath.Join(keepDir, stamp+".log"), lb, 0o644)
		os.WriteFile(filepath.Join(keepDir, stamp+".cfg.json"), b, 0o644)
		return nil, fmt.Errorf("worker %d watchdog: no result after %v (goroutine dump kept in %s)", cfg.Worker, timeout, keepDir)
	}
	logf.Close()
	ob, err := os.ReadFile(cfg.OutFile)
	if err != nil {
		lb, _ := os.ReadFile(cfg.OutFile + ".log")
		// keep what is needed to look into it: the configuration and the full log
		keepDir := filepath.Join(verifDir, "replays", "_machinery")
		os.MkdirAll(keepDir, 0o755)
		stamp := fmt.Sprintf("%s-w%d-%d", cfg.Property, cfg.Worker, time.Now().Unix())
		os.WriteFile(filepath.Join(keepDir, stamp+".log"), lb, 0o644)
		os.WriteFile(filepath.Join(keepDir, stamp+".cfg.json"), b, 0o644)
		tail := string(lb)
		if len(tail) > 3000 {
			tail = tail[len(tail)-3000:]
		}
		if strings.Contains(string(lb), "from outside bubble") {
			// the Go runtime refuses, fatally, to let one synctest bubble touch a channel or
			// goroutine that was created in another one
			return nil, fmt.Errorf("worker %d: %s: the code under test keeps goroutines or channels alive from one call to the next (a process-wide worker pool or background goroutine started on first use?). Every simulated run lives in its own synctest bubble and the runtime does not let a bubble touch another bubble's channels, so such state cannot pass from one run to the next (DESIGN.md section 6.2, \"Goroutines that outlive a call\"). Log kept in %s", cfg.Worker, errCrossBubble, keepDir)
		}
		return nil, fmt.Errorf("worker %d produced no summary (%v): %s", cfg.Worker, werr, tail)
	}
	var s summary
	dec := json.NewDecoder(strings.NewReader(string(ob)))
	dec.UseNumber() // run seeds are 64-bit: never through float64
	if err := dec.Decode(&s); err != nil {
		return nil, err
	}
	return &s, nil
}

func loadFindings(prop string) (open map[string]finding, all []finding) {
	open = map[string]finding{}
	b, err := os.ReadFile(filepath.Join(verifDir, "known_findings.json"))
	if err != nil {
		return
	}
	var ff findingsFile
	if err := json.Unmarshal(b, &ff); err != nil {
		die(2, "known_findings.json does not parse: %v", err)
	}
	for _, f := range ff.Findings {
		if f.Property != prop {
			continue
		}
		all = append(all, f)
		if f.Status == "open" {
			open[f.ID] = f
		}
	}
	return
}

func main() {
	tierFlag := flag.String("tier", "", "quick | thorough (default: $VERIF_TIER or quick)")
	replay := flag.String("replay", "", "replay one file instead of exploring")
	runsFlag := flag.Int("runs", 0, "override the number of runs")
	workersFlag := flag.Int("workers", 0, "worker processes (default: number of CPUs)")
	flag.BoolVar(&keep, "keep", false, "keep the scratch directory")
	noEvidence := flag.Bool("noevidence", false, "do not write the evidence file (used when trying seeded breakages)")
	flag.BoolVar(&isolate, "isolate", false, "run every simulated run in a process of its own (chosen automatically when the code under test keeps goroutines alive across calls)")
	detFlag := flag.Int("determinism", -1, "number of seeds for the determinism self-test (default per tier)")
	flag.Parse()
	if flag.NArg() != 1 {
		fmt.Fprintln(os.Stderr, "usage: simdrv [-tier quick|thorough] [-replay file] <property id>")
		os.Exit(2)
	}
	prop := flag.Arg(0)
	tier := *tierFlag
	if tier == "" {
		tier = os.Getenv("VERIF_TIER")
	}
	if tier != "thorough" {
		tier = "quick"
	}
	seed := uint64(1)
	if s := os.Getenv("VERIF_SEED"); s != "" {
		if v, err := strconv.ParseUint(s, 10, 64); err == nil {
			seed = v
		} else if v, err := strconv.ParseInt(s, 10, 64); err == nil {
			seed = uint64(v)
		}
	}
	start := time.Now()
	fmt.Printf("simdrv: property=%s tier=%s VERIF_SEED=%d\n", prop, tier, seed)
	open, _ := loadFindings(prop)
	openIDs := map[string]bool{}
	for id := range open {
		openIDs[id] = true
	}
	if tier == "thorough" && *replay == "" {
		out, err := run(verifDir, os.Environ(), filepath.Join(verifDir, "bin", "idle-selftest"))
		fmt.Print(out)
		if err != nil {
			die(2, "idle-instrumentation self-test failed: the instrumented copy of /repo does not pass poly's own suite")
		}
	}
	bin := buildHarness(prop)
	defer cleanup()
	fmt.Printf("simdrv: built instrumented harness in %.1fs\n", time.Since(start).Seconds())
	replayDir := filepath.Join(envOr("VERIF_REPLAYS", filepath.Join(verifDir, "replays")), prop) // VERIF_REPLAYS: parallel regression shards keep their replay files apart

	if *replay != "" {
		abs, _ := filepath.Abs(*replay)
		procs := 4
		if rb, err := os.ReadFile(abs); err == nil {
			var hdr struct {
				P int `json:"explored_at_gomaxprocs"`
			}
			if json.Unmarshal(rb, &hdr) == nil && hdr.P > 0 {
				procs = hdr.P // the code under test may depend on GOMAXPROCS
			}
		}
		cfg := workerCfg{Property: prop, Mode: "replay", Tier: tier, VerifSeed: seed, NWorkers: 1, OutFile: filepath.Join(scratch, "replay.json"), Replay: abs, Findings: openIDs, MaxProcs: procs}
		s, err := runWorker(bin, cfg, 20*time.Minute)
		if err != nil {
			die(2, "replay failed to run: %v", err)
		}
		fmt.Printf("replay: class=%q detail=%s log_hash=%s\n", s.Determinism["class"], s.Determinism["detail"], s.Determinism["log_hash"])
		if strings.HasPrefix(s.Determinism["class"], "violation:") {
			fmt.Printf("VIOLATION property=%s replay=%s\n", prop, abs)
			cleanup()
			os.Exit(1)
		}
		fmt.Println("replay: the recorded run does not violate the property on this tree")
		return
	}

	nw := *workersFlag
	if nw <= 0 {
		nw = runtime.NumCPU()
	}
	procsCycle := []int{1, 2, 16}

	// 1. determinism self-test: the same seeds in three processes at GOMAXPROCS 1, 4, 16
	nDet := *detFlag
	if nDet < 0 {
		nDet = 24
		if tier == "thorough" {
			nDet = 2000
		}
	}
	detPairs, detMismatch, detProcsDependent, detLogOnly := 0, 0, 0, 0
	detBroken := ""
	if nDet > 0 {
		var idx []int
		for i := 0; i < nDet; i++ {
			idx = append(idx, i*7+1)
		}
		type dres struct {
			s   *summary
			err error
		}
		// split the seeds over several process triples so the thorough tier uses all cores
		groups := 1
		if nDet >= 200 {
			groups = 5
		}
		var mu sync.Mutex
		var wg sync.WaitGroup
		var firstErr error
		for g := 0; g < groups; g++ {
			var part []int
			for i, v := range idx {
				if i%groups == g {
					part = append(part, v)
				}
			}
			res := make([]dres, 6)
			var gw sync.WaitGroup
			for k, mp := range []int{1, 4, 16, 1, 4, 16} {
				gw.Add(1)
				go func(k, mp int) {
					defer gw.Done()
					cfg := workerCfg{Property: prop, Mode: "determinism", Tier: tier, VerifSeed: seed, NWorkers: 1, Indices: part, OutFile: filepath.Join(scratch, fmt.Sprintf("det-%d-%d-%d.json", g, mp, k)), Findings: openIDs, MaxProcs: mp, Isolate: isolate}
					s, err := runWorker(bin, cfg, 60*time.Minute)
					res[k] = dres{s, err}
				}(k, mp)
			}
			wg.Add(1)
			go func() {
				defer wg.Done()
				gw.Wait()
				mu.Lock()
				defer mu.Unlock()
				for _, r := range res {
					if r.err != nil && firstErr == nil {
						firstErr = r.err
					}
				}
				if firstErr != nil {
					return
				}
				for k, v := range res[0].s.Determinism {
					detPairs++
					// hard requirement: two processes with the same GOMAXPROCS agree
					verdict := func(d string) string {
						if i := strings.Index(d, "#"); i >= 0 {
							return d[:i]
						}
						return d
					}
					logDiffers := false
					for j := 0; j < 3; j++ {
						a, b := res[j].s.Determinism[k], res[j+3].s.Determinism[k]
						if verdict(a) != verdict(b) {
							detMismatch++
							fmt.Printf("simdrv: DETERMINISM MISMATCH run index %s between two processes at the same GOMAXPROCS: %q / %q\n", k, a, b)
							logDiffers = false
							break
						}
						if a != b {
							logDiffers = true
						}
					}
					if logDiffers {
						// same verdict, different event log: the code under test is itself
						// nondeterministic (it ranges over a map in instrumented code, say)
						detLogOnly++
					}
					// across GOMAXPROCS values the logs agree unless the code under test itself
					// reads GOMAXPROCS (e.g. to size a worker pool): reported, not a failure
					if res[1].s.Determinism[k] != v || res[2].s.Determinism[k] != v {
						detProcsDependent++
					}
				}
			}()
		}
		wg.Wait()
		if firstErr != nil {
			die(2, "determinism self-test could not run: %v", firstErr)
		}
		if detMismatch > 0 {
			// The code under test behaves differently in two identical processes (it lets a
			// map's iteration order decide a result, say). A clean batch on such a tree means
			// nothing, so without a confirmed violation the check ends with exit 2 below. A
			// violation is still a fact about one execution of the real code: it is reported
			// if a fresh process reproduces it from its replay file (tried up to 5 times).
			detBroken = fmt.Sprintf("determinism self-test: %d of %d seeds reach different verdicts in two processes with the same GOMAXPROCS - nothing this run reports can be trusted", detMismatch, detPairs)
			fmt.Printf("simdrv: %s; exploring anyway: only a violation that a fresh process reproduces will be reported\n", detBroken)
		}
		if detLogOnly > 0 {
			fmt.Printf("simdrv: note: for %d of %d seeds two identical processes reached the same verdict through different event logs: the code under test is nondeterministic in itself (e.g. it ranges over a map inside instrumented code); replay files of this tree may not reproduce step by step\n", detLogOnly, detPairs)
		}
		if detBroken != "" {
			// no "ok" line
		} else if detProcsDependent > 0 {
			fmt.Printf("simdrv: determinism self-test ok (%d seeds x 6 processes: identical event logs for equal GOMAXPROCS; %d seeds differ ACROSS GOMAXPROCS 1/4/16, i.e. the code under test depends on GOMAXPROCS itself) at %.1fs\n", detPairs, detProcsDependent, time.Since(start).Seconds())
		} else {
			fmt.Printf("simdrv: determinism self-test ok (%d seeds x 6 processes at GOMAXPROCS 1/4/16 twice each, identical event logs) at %.1fs\n", detPairs, time.Since(start).Seconds())
		}
	}

	// 2. exploration
	timeout := 25 * time.Minute
	if tier == "thorough" {
		timeout = 10 * time.Hour
	}
	// a batch is bounded in real time as well as in runs: a tree on which every run is
	// slow (heavily instrumented hot loops) gets fewer runs, and the check says so,
	// instead of running into the watchdog
	wallBudget := 10 * 60
	if tier == "thorough" {
		wallBudget = 3 * 3600
	}
	sums := make([]*summary, nw)
	errs := make([]error, nw)
	var restarts atomic.Int64
	var wg sync.WaitGroup
	for w := 0; w < nw; w++ {
		wg.Add(1)
		go func(w int) {
			defer wg.Done()
			cfg := workerCfg{Property: prop, Mode: "explore", Tier: tier, VerifSeed: seed, Worker: w, NWorkers: nw, Runs: *runsFlag, Isolate: isolate, WallS: wallBudget,
				OutFile: filepath.Join(scratch, fmt.Sprintf("w%d.json", w)), ReplayDir: replayDir, Findings: openIDs, MaxProcs: procsCycle[w%3], MaxViol: 2, ShrinkS: 40}
			sums[w], errs[w] = runWorker(bin, cfg, timeout)
			if errs[w] != nil && !strings.Contains(errs[w].Error(), "watchdog") && !strings.Contains(errs[w].Error(), errCrossBubble) {
				// A worker that died without a summary is re-run once: its runs are a pure
				// function of (seed, worker index), so a second death is not an accident.
				fmt.Printf("simdrv: %v - restarting that worker once\n", errs[w])
				restarts.Add(1)
				sums[w], errs[w] = runWorker(bin, cfg, timeout)
			}
		}(w)
	}
	wg.Wait()
	for _, e := range errs {
		if e != nil {
			die(2, "%v", e)
		}
	}
	agg := &summary{Counters: map[string]int64{}, Strategies: map[string]int64{}, Known: map[string]int64{}, KnownDetail: map[string]string{}}
	shapes := map[uint64]bool{}
	scheds := map[uint64]bool{}
	procRuns := map[string]int{}
	for _, s := range sums {
		agg.Runs += s.Runs
		agg.Steps += s.Steps
		agg.SimTimeNs += s.SimTimeNs
		agg.Nontrivial += s.Nontrivial
		procRuns[strconv.Itoa(s.MaxProcs)] += s.Runs
		for k, v := range s.Counters {
			agg.Counters[k] += v
		}
		for k, v := range s.Strategies {
			agg.Strategies[k] += v
		}
		for k, v := range s.Known {
			agg.Known[k] += v
			if agg.KnownDetail[k] == "" {
				agg.KnownDetail[k] = s.KnownDetail[k]
			}
		}
		for _, h := range s.Shapes {
			shapes[h] = true
		}
		for _, h := range s.Schedules {
			scheds[h] = true
		}
		agg.Violations = append(agg.Violations, s.Violations...)
		agg.Machinery = append(agg.Machinery, s.Machinery...)
		if len(agg.Samples) < 4 {
			agg.Samples = append(agg.Samples, s.Samples...)
		}
		if s.Rule != "" {
			agg.Rule, agg.RealCode, agg.Stubs = s.Rule, s.RealCode, s.Stubs
		}
	}
	if len(agg.Machinery) > 0 {
		for i, m := range agg.Machinery {
			if i < 5 {
				fmt.Println("simdrv: machinery:", m)
			}
		}
		die(2, "%d runs reported simulator trouble (first: %s)", len(agg.Machinery), agg.Machinery[0])
	}

	// 3. confirm every violation by replaying its file in a fresh process
	sort.Strings(agg.Violations)
	confirmed := []string{}
	seenClass := map[string]bool{}
	replayOnce := func(path string, tag string, procs int, want string) string {
		tries := 1
		if detBroken != "" {
			tries = 5 // the tree is nondeterministic in itself: a faithful replay may still miss
		}
		got := ""
		for n := 0; n < tries; n++ {
			cfg := workerCfg{Property: prop, Mode: "replay", Tier: tier, VerifSeed: seed, NWorkers: 1, OutFile: filepath.Join(scratch, "confirm-"+tag+".json"), Replay: path, Findings: openIDs, MaxProcs: procs}
			s, err := runWorker(bin, cfg, 30*time.Minute)
			if err != nil {
				die(2, "replay of %s failed to run: %v", path, err)
			}
			if got = s.Determinism["class"]; got == want {
				break
			}
		}
		return got
	}
	irreproducible := []string{}
	for i, v := range agg.Violations {
		var rf map[string]interface{}
		b, _ := os.ReadFile(v)
		rdec := json.NewDecoder(strings.NewReader(string(b)))
		rdec.UseNumber()
		rdec.Decode(&rf)
		num := func(k string) float64 {
			if n, ok := rf[k].(json.Number); ok {
				f, _ := n.Float64()
				return f
			}
			return 0
		}
		class, _ := rf["class"].(string)
		detail, _ := rf["detail"].(string)
		if seenClass[class] {
			os.Remove(v) // one replay file per violation class is enough
			continue
		}
		tag := strconv.Itoa(i)
		eprocs := int(num("explored_at_gomaxprocs"))
		if eprocs <= 0 {
			eprocs = 4
		}
		if replayOnce(v, tag, eprocs, class) != class {
			// The violation may depend on state that earlier runs of the same worker
			// process left behind (itself a cross-call leak). Replay the run after the
			// runs that preceded it in that worker, then shorten that prefix.
			worker, nworkers, procs, idx := num("explored_by_worker"), num("explored_with_workers"), num("explored_at_gomaxprocs"), num("run_index")
			var prefix []int
			for r := int(worker); r < int(idx) && nworkers > 0; r += int(nworkers) {
				prefix = append(prefix, r)
			}
			minTape := rf["tape"]
			try := func(pfx []int, tape interface{}, sub string) bool {
				rf["prefix_runs"] = pfx
				rf["tape"] = tape
				tb, _ := json.MarshalIndent(rf, "", " ")
				tmp := filepath.Join(scratch, "prefix-"+tag+"-"+sub+".json")
				os.WriteFile(tmp, tb, 0o644)
				return replayOnce(tmp, tag+"-"+sub, int(procs), class) == class
			}
			if len(prefix) == 0 || !try(prefix, rf["tape_before_shrinking"], "full") {
				irreproducible = append(irreproducible, fmt.Sprintf("%s (%s)", v, class))
				os.Remove(v)
				continue
			}
			best := prefix
			for k := 1; k < len(prefix); k *= 2 {
				if try(prefix[len(prefix)-k:], rf["tape_before_shrinking"], fmt.Sprintf("last%d", k)) {
					best = prefix[len(prefix)-k:]
					break
				}
			}
			tape := rf["tape_before_shrinking"]
			if try(best, minTape, "min") {
				tape = minTape
			}
			rf["prefix_runs"], rf["tape"] = best, tape
			rf["prefix_note"] = "the violation depends on state left in the process by the listed earlier runs (executed first, in order, in the same process); the run alone does not show it"
			delete(rf, "tape_before_shrinking")
			fb, _ := json.MarshalIndent(rf, "", " ")
			os.WriteFile(v, fb, 0o644)
			if replayOnce(v, tag+"-final", int(procs), class) != class {
				irreproducible = append(irreproducible, fmt.Sprintf("%s (%s)", v, class))
				os.Remove(v)
				continue
			}
			fmt.Printf("simdrv: %s needs %d earlier run(s) of the same process to manifest; they are part of the replay file\n", class, len(best))
		} else {
			delete(rf, "tape_before_shrinking")
			fb, _ := json.MarshalIndent(rf, "", " ")
			os.WriteFile(v, fb, 0o644)
		}
		seenClass[class] = true
		confirmed = append(confirmed, v)
		fmt.Printf("simdrv: %s: %s\n", class, detail)
	}
	if len(confirmed) == 0 && detBroken != "" {
		die(2, "%s", detBroken)
	}
	if len(confirmed) == 0 && len(irreproducible) > 0 {
		die(2, "%d violation report(s) did not reproduce in a fresh process, even after the runs that preceded them: %s", len(irreproducible), strings.Join(irreproducible, "; "))
	}
	if len(irreproducible) > 0 {
		fmt.Printf("simdrv: note: %d further violation report(s) did not reproduce in a fresh process and are not reported\n", len(irreproducible))
	}

	// 4. evidence
	wall := time.Since(start).Seconds()
	distinct := len(shapes)
	perHour := 0.0
	if wall > 0 {
		perHour = float64(agg.Runs) / wall * 3600
	}
	faults := map[string]int64{}
	probes := map[string]int64{}
	other := map[string]int64{}
	for k, v := range agg.Counters {
		switch {
		case strings.HasPrefix(k, "fault_"):
			faults[k] = v
		case strings.HasPrefix(k, "probe_"):
			probes[k] = v
		default:
			other[k] = v
		}
	}
	var instrRep interface{}
	if b, err := os.ReadFile(filepath.Join(scratch, "instr.json")); err == nil {
		json.Unmarshal(b, &instrRep)
	}
	knownLines := []string{}
	for id, n := range agg.Known {
		f, ok := open[id]
		if !ok {
			die(2, "a run classified itself under finding %q which is not listed open in known_findings.json", id)
		}
		line := fmt.Sprintf("KNOWN-FINDING: property=%s %s [%s; observed in %d runs, e.g. %s]", prop, f.What, id, n, agg.KnownDetail[id])
		knownLines = append(knownLines, line)
	}
	sort.Strings(knownLines)
	if len(agg.Samples) == 0 {
		agg.Samples = append(agg.Samples, "no sample recorded")
	}
	ev := map[string]interface{}{
		"property_id": prop,
		"tier":        tier,
		"seed":        seed,
		"level":       "exploration",
		"wall_s":      wall,
		"violations":  len(confirmed),
		"coverage": map[string]interface{}{
			"evaluations":                   agg.Runs,
			"distinct_nontrivial":           distinct,
			"rule":                          agg.Rule,
			"samples":                       agg.Samples,
			"nontrivial_runs":               agg.Nontrivial,
			"distinct_event_logs":           len(scheds),
			"scheduler_steps":               agg.Steps,
			"simulated_time_seconds":        float64(agg.SimTimeNs) / 1e9,
			"runs_per_hour":                 perHour,
			"seeds_per_hour":                perHour,
			"faults_fired":                  faults,
			"probes_hit":                    probes,
			"other_counters":                other,
			"runs_per_strategy":             agg.Strategies,
			"runs_per_gomaxprocs":           procRuns,
			"determinism_seeds_compared":    detPairs,
			"determinism_mismatches":        detMismatch,
			"worker_processes":              nw,
			"worker_restarts":               restarts.Load(),
			"one_process_per_simulated_run": isolate,
			"known_findings_observed":       agg.Known,
			"components_real_code":          agg.RealCode,
			"components_stubbed":            agg.Stubs,
			"instrumentation":               instrRep,
			"exhaustive":                    false,
			"violation_replay_files":        confirmed,
			"violations_seen_not_minimised": agg.Counters["violations_not_minimised_duplicates"],
		},
		"assumptions": []string{
			"interleavings are explored at statement granularity in instrumented functions; code between two yields runs atomically with respect to the scheduler",
			"the instrumentation pass only inserts statements (idle-instrumented copy passes poly's own suite: checked by setup and the thorough tier)",
			"a clean batch is evidence, not proof: seeded sampling, not exhaustive enumeration",
			"Go's runtime, standard library (bufio, compress/gzip, encoding/xml, math/rand) and testing/synctest are trusted",
		},
	}
	os.MkdirAll(filepath.Join(verifDir, "evidence"), 0o755)
	eb, _ := json.MarshalIndent(ev, "", " ")
	if !*noEvidence {
		if err := os.WriteFile(filepath.Join(verifDir, "evidence", prop+".json"), eb, 0o644); err != nil {
			die(2, "cannot write evidence: %v", err)
		}
	}
	for _, l := range knownLines {
		fmt.Println(l)
	}
	fmt.Printf("simdrv: %d runs (%d non-trivial, %d distinct non-trivial cases, %d distinct event logs), %d scheduler steps, %.1fs wall\n", agg.Runs, agg.Nontrivial, distinct, len(scheds), agg.Steps, wall)
	if n := agg.Counters["runs_not_executed_within_wall_clock_budget"]; n > 0 {
		fmt.Printf("simdrv: note: the batch reached its wall-clock budget (%d s per worker): %d of the planned runs were not executed; runs on this tree are unusually slow\n", wallBudget, n)
	}
	if len(confirmed) > 0 {
		for _, v := range confirmed {
			fmt.Printf("VIOLATION property=%s replay=%s\n", prop, v)
		}
		cleanup()
		os.Exit(1)
	}
	fmt.Printf("simdrv: property %s held on everything explored\n", prop)
}
