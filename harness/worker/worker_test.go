package worker

import (
	"encoding/json"
	"fmt"
	"os"
	"os/exec"
	"path/filepath"
	"runtime"
	"sort"
	"testing"
	"time"

	"verifharness/core"
	"verifharness/props"
)

// Config is written by the driver; one worker process executes one Config.
type Config struct {
	Property  string          `json:"property"`
	Mode      string          `json:"mode"` // explore | replay | determinism
	Tier      string          `json:"tier"`
	VerifSeed uint64          `json:"verif_seed"`
	Worker    int             `json:"worker"`
	NWorkers  int             `json:"nworkers"`
	Runs      int             `json:"runs"` // 0: the property's count for the tier
	Indices   []int           `json:"indices,omitempty"`
	OutFile   string          `json:"out_file"`
	ReplayDir string          `json:"replay_dir"`
	Replay    string          `json:"replay,omitempty"`
	Findings  map[string]bool `json:"findings"`
	MaxProcs  int             `json:"maxprocs"`
	MaxViol   int             `json:"max_violations"`
	ShrinkS   int             `json:"shrink_seconds"`
	// WallBudgetS bounds the exploration of one worker in real seconds (0: none). It never
	// decides anything inside a run: it only ends the batch early, and the summary says so.
	WallBudgetS int `json:"wall_budget_seconds"`
	// Isolate: every simulated run is executed in a process of its own (a child of this
	// worker). Used for code that keeps goroutines or channels alive from one call to the
	// next (a process-wide worker pool): such state cannot cross from one run's synctest
	// bubble into the next one's, but it can live and die with a process.
	Isolate bool        `json:"isolate,omitempty"`
	Single  *SingleSpec `json:"single,omitempty"` // mode "single": the one run a child executes
}

// SingleSpec names one run for a child process: a fresh tape from Seed, or the
// recorded values of Tape.
type SingleSpec struct {
	Idx    int      `json:"idx"`
	Seed   uint64   `json:"seed"`
	Tape   []uint32 `json:"tape,omitempty"`
	Replay bool     `json:"replay"` // use Tape (possibly empty) instead of Seed
	Record bool     `json:"record"`
}

// SingleOut is what a child reports: the complete result and the tape it consumed.
type SingleOut struct {
	Class      string           `json:"class"`
	Detail     string           `json:"detail"`
	Scenario   interface{}      `json:"scenario"`
	ShapeKey   string           `json:"shape_key"`
	Nontrivial bool             `json:"nontrivial"`
	LogHash    string           `json:"log_hash"`
	Steps      int              `json:"steps"`
	SimTimeNs  int64            `json:"sim_time_ns"`
	Strategy   string           `json:"strategy"`
	Counters   map[string]int64 `json:"counters"`
	Trace      []string         `json:"trace"`
	Used       []uint32         `json:"used"`
}

// ReplayFile is the self-describing reproduction of one violating run.
type ReplayFile struct {
	Property  string   `json:"property"`
	Class     string   `json:"class"`
	Detail    string   `json:"detail"`
	VerifSeed uint64   `json:"verif_seed"`
	RunIndex  int      `json:"run_index"`
	RunSeed   uint64   `json:"run_seed"`
	Tier      string   `json:"tier"`
	Tape      []uint32 `json:"tape"`
	// Prefix lists run indices (of the same VERIF_SEED) that are executed, in this
	// order and in the same process, before the tape: needed only when the
	// violation depends on state that earlier runs left behind in the process.
	Prefix    []int       `json:"prefix_runs,omitempty"`
	PrefixWhy string      `json:"prefix_note,omitempty"`
	Isolated  bool        `json:"explored_with_one_process_per_run,omitempty"`
	Worker    int         `json:"explored_by_worker"`
	NWorkers  int         `json:"explored_with_workers"`
	MaxProcs  int         `json:"explored_at_gomaxprocs"`
	TapeFull  []uint32    `json:"tape_before_shrinking,omitempty"`
	TapeOrig  int         `json:"tape_len_before_shrinking"`
	ShrinkRun int         `json:"shrink_executions"`
	Findings  []string    `json:"open_findings_assumed"`
	Scenario  interface{} `json:"scenario"`
	Schedule  []string    `json:"schedule"`
	Strategy  string      `json:"strategy"`
	LogHash   string      `json:"log_hash"`
}

// Summary is what an explore worker reports back.
type Summary struct {
	Worker      int               `json:"worker"`
	MaxProcs    int               `json:"maxprocs"`
	Runs        int               `json:"runs"`
	Steps       int64             `json:"steps"`
	SimTimeNs   int64             `json:"sim_time_ns"`
	WallS       float64           `json:"wall_s"`
	Counters    map[string]int64  `json:"counters"`
	Strategies  map[string]int64  `json:"strategies"`
	Shapes      []uint64          `json:"shapes"`    // distinct hashes of (scenario shape, schedule) among non-trivial runs
	Schedules   []uint64          `json:"schedules"` // distinct schedule/event-log hashes
	Nontrivial  int               `json:"nontrivial"`
	Known       map[string]int64  `json:"known"` // finding id -> runs whose only deviation was that finding
	KnownDetail map[string]string `json:"known_detail"`
	Violations  []string          `json:"violations"` // replay file paths
	Machinery   []string          `json:"machinery"`
	Samples     []interface{}     `json:"samples"`
	Determinism map[string]string `json:"determinism,omitempty"` // index -> digest
	Rule        string            `json:"rule"`
	RealCode    []string          `json:"real_code"`
	Stubs       []string          `json:"stubs"`
}

func runSeed(cfg *Config, idx int) uint64 {
	return core.Mix(cfg.VerifSeed, core.HashString("prop:"+cfg.Property), uint64(idx))
}

func digest(r *core.Result) string {
	// "<verdict>#<event log>": the driver compares both parts
	return r.Class + "|" + fmt.Sprintf("%016x", core.HashString(r.Detail)) + "#" + r.LogHash + "|" + fmt.Sprint(r.Steps)
}

func TestWorker(t *testing.T) {
	path := os.Getenv("VERIF_WORKER_CFG")
	if path == "" {
		t.Skip("no VERIF_WORKER_CFG")
	}
	b, err := os.ReadFile(path)
	if err != nil {
		t.Fatal(err)
	}
	var cfg Config
	if err := json.Unmarshal(b, &cfg); err != nil {
		t.Fatal(err)
	}
	if cfg.MaxProcs > 0 {
		runtime.GOMAXPROCS(cfg.MaxProcs)
	}
	p := props.Get(cfg.Property)
	if p == nil {
		t.Fatalf("unknown property %s", cfg.Property)
	}
	tmp, err := os.MkdirTemp("", "verifrun")
	if err != nil {
		t.Fatal(err)
	}
	defer os.RemoveAll(tmp)
	rc := func(idx int, record bool) *props.RunCtx {
		return &props.RunCtx{VerifSeed: cfg.VerifSeed, Index: idx, Tier: cfg.Tier, Record: record, TmpDir: tmp, Findings: cfg.Findings, Isolated: cfg.Isolate}
	}
	sum := &Summary{Worker: cfg.Worker, MaxProcs: cfg.MaxProcs, Counters: map[string]int64{}, Strategies: map[string]int64{}, Known: map[string]int64{}, KnownDetail: map[string]string{}}
	sum.Rule = p.Rule()
	sum.RealCode, sum.Stubs = p.Components()
	start := time.Now()
	write := func() {
		sum.WallS = time.Since(start).Seconds()
		out, _ := json.Marshal(sum)
		if err := os.WriteFile(cfg.OutFile, out, 0o644); err != nil {
			t.Fatal(err)
		}
	}

	// the run in progress, for the stall watcher
	var cur struct {
		idx  int
		tape *core.Tape
	}
	core.StartStallWatch(40*time.Second, func(si core.StallInfo) {
		if si.Sim == nil {
			si.Sim = core.NewSim(core.NewTape(0))
		}
		class := "machinery:stall"
		detail := fmt.Sprintf("the scheduler saw no quiescent point for %v of real time after %d steps (%d tasks parked, actors enabled=%v): some goroutine is neither parked nor durably blocked", si.Waited.Round(time.Second), si.Steps, si.Parked, si.ActorsEnabled)
		if si.BubbleExit {
			detail = fmt.Sprintf("the run has ended but for %v goroutines it started have neither ended nor blocked durably: the code under test keeps goroutines alive across calls (a package-level worker pool?), which this simulator cannot host", si.Waited.Round(time.Second))
		} else if si.Parked == 0 && !si.ActorsEnabled && !si.ClientsDone {
			class = "violation:no-progress"
			detail = fmt.Sprintf("after %d scheduler steps no goroutine is schedulable, the call has not returned and nothing has changed for %v of real time: a goroutine is blocked on an object outside the simulation (a package-level channel or lock) or spins without reaching a yield point", si.Steps, si.Waited.Round(time.Second))
		}
		switch cfg.Mode {
		case "single":
			var used []uint32
			if cur.tape != nil {
				used = cur.tape.Used()
			}
			ob, _ := json.Marshal(SingleOut{Class: class, Detail: detail, LogHash: si.Sim.LogHash(), Steps: si.Steps, Strategy: si.Sim.Strategy, Trace: si.Sim.Trace, Used: used})
			os.WriteFile(cfg.OutFile, ob, 0o644)
			os.Exit(0)
		case "replay":
			sum.Runs = 1
			sum.Determinism = map[string]string{"class": class, "detail": detail, "log_hash": si.Sim.LogHash()}
		case "determinism":
			if sum.Determinism == nil {
				sum.Determinism = map[string]string{}
			}
			sum.Determinism[fmt.Sprint(cur.idx)] = "stall|" + class + "#" + si.Sim.LogHash()
		default:
			sum.Runs++
			if class[:9] == "machinery" {
				sum.Machinery = append(sum.Machinery, fmt.Sprintf("run %d: %s %s", cur.idx, class, detail))
			} else {
				var fl []string
				for k, v := range cfg.Findings {
					if v {
						fl = append(fl, k)
					}
				}
				sort.Strings(fl)
				used := cur.tape.Used()
				rf := ReplayFile{Property: cfg.Property, Class: class, Detail: detail, VerifSeed: cfg.VerifSeed, RunIndex: cur.idx, RunSeed: runSeed(&cfg, cur.idx), Tier: cfg.Tier,
					Tape: used, TapeFull: used, Worker: cfg.Worker, NWorkers: cfg.NWorkers, MaxProcs: cfg.MaxProcs, TapeOrig: len(used), Findings: fl, Strategy: si.Sim.Strategy, LogHash: si.Sim.LogHash(),
					Scenario: "not minimised: the run never came back (the process had to be ended)", Schedule: si.Sim.Trace}
				rb, _ := json.MarshalIndent(rf, "", " ")
				os.MkdirAll(cfg.ReplayDir, 0o755)
				rp := filepath.Join(cfg.ReplayDir, fmt.Sprintf("%s-seed%d-run%d.json", cfg.Property, cfg.VerifSeed, cur.idx))
				os.WriteFile(rp, rb, 0o644)
				sum.Violations = append(sum.Violations, rp)
				sum.Counters["exploration_cut_short_after_stalled_run"] = 1
			}
		}
		write()
		os.Exit(0)
	})

	// run executes one simulated run: here, or (Isolate) in a child process of its own.
	nchild := 0
	run := func(spec SingleSpec) (*core.Result, []uint32) {
		if !cfg.Isolate || cfg.Mode == "single" {
			var tape *core.Tape
			if spec.Replay {
				tape = core.ReplayTape(spec.Tape)
			} else {
				tape = core.NewTape(spec.Seed)
			}
			cur.idx, cur.tape = spec.Idx, tape
			res := p.Run(t, tape, rc(spec.Idx, spec.Record))
			return res, tape.Used()
		}
		nchild++
		ccfg := cfg
		ccfg.Mode, ccfg.Single = "single", &spec
		ccfg.OutFile = filepath.Join(tmp, fmt.Sprintf("single-%d.json", nchild))
		cb, _ := json.Marshal(ccfg)
		cpath := filepath.Join(tmp, fmt.Sprintf("single-%d.cfg.json", nchild))
		os.WriteFile(cpath, cb, 0o644)
		defer os.Remove(cpath)
		defer os.Remove(ccfg.OutFile)
		cmd := exec.Command(os.Args[0], os.Args[1:]...)
		env := []string{"VERIF_WORKER_CFG=" + cpath}
		for _, e := range os.Environ() {
			if len(e) < 17 || e[:17] != "VERIF_WORKER_CFG=" {
				env = append(env, e)
			}
		}
		cmd.Env = env
		logPath := filepath.Join(tmp, fmt.Sprintf("single-%d.log", nchild))
		lf, _ := os.Create(logPath)
		defer os.Remove(logPath)
		cmd.Stdout, cmd.Stderr = lf, lf
		fail := func(why string) (*core.Result, []uint32) {
			lf.Close()
			lb, _ := os.ReadFile(logPath)
			if len(lb) > 1500 {
				lb = lb[len(lb)-1500:]
			}
			return &core.Result{Class: "machinery:isolated-run", Detail: fmt.Sprintf("the child process for run %d %s: %s", spec.Idx, why, lb)}, spec.Tape
		}
		if err := cmd.Start(); err != nil {
			return fail("did not start (" + err.Error() + ")")
		}
		done := make(chan error, 1)
		go func() { done <- cmd.Wait() }()
		select {
		case <-done:
		case <-time.After(10 * time.Minute):
			cmd.Process.Kill()
			<-done
			return fail("did not finish within 10 minutes")
		}
		ob, err := os.ReadFile(ccfg.OutFile)
		if err != nil {
			return fail("left no result")
		}
		lf.Close()
		var so SingleOut
		if err := json.Unmarshal(ob, &so); err != nil {
			return fail("left an unreadable result")
		}
		return &core.Result{Class: so.Class, Detail: so.Detail, Scenario: so.Scenario, ShapeKey: so.ShapeKey, Nontrivial: so.Nontrivial, LogHash: so.LogHash,
			Steps: so.Steps, SimTimeNs: so.SimTimeNs, Strategy: so.Strategy, Counters: so.Counters, Trace: so.Trace}, so.Used
	}

	switch cfg.Mode {
	case "single":
		res, used := run(*cfg.Single)
		ob, _ := json.Marshal(SingleOut{Class: res.Class, Detail: res.Detail, Scenario: res.Scenario, ShapeKey: res.ShapeKey, Nontrivial: res.Nontrivial, LogHash: res.LogHash,
			Steps: res.Steps, SimTimeNs: res.SimTimeNs, Strategy: res.Strategy, Counters: res.Counters, Trace: res.Trace, Used: used})
		if err := os.WriteFile(cfg.OutFile, ob, 0o644); err != nil {
			t.Fatal(err)
		}
		return
	case "replay":
		b, err := os.ReadFile(cfg.Replay)
		if err != nil {
			t.Fatal(err)
		}
		var rf ReplayFile
		if err := json.Unmarshal(b, &rf); err != nil {
			t.Fatal(err)
		}
		cfg.VerifSeed = rf.VerifSeed
		cfg.Isolate = rf.Isolated // a replay is a process of its own anyway; the flag only tells the oracle
		for _, pi := range rf.Prefix {
			pc := rc(pi, false)
			pc.VerifSeed, pc.Tier = rf.VerifSeed, rf.Tier
			p.Run(t, core.NewTape(runSeed(&cfg, pi)), pc)
		}
		c := rc(rf.RunIndex, true)
		c.VerifSeed = rf.VerifSeed
		c.Tier = rf.Tier
		cur.idx, cur.tape = rf.RunIndex, core.ReplayTape(rf.Tape)
		res := p.Run(t, cur.tape, c)
		sum.Runs = 1
		sum.Determinism = map[string]string{"class": res.Class, "detail": res.Detail, "log_hash": res.LogHash}
		sum.Samples = append(sum.Samples, res.Scenario)
		write()
		return
	case "determinism":
		sum.Determinism = map[string]string{}
		for _, idx := range cfg.Indices {
			res, _ := run(SingleSpec{Idx: idx, Seed: runSeed(&cfg, idx)})
			sum.Determinism[fmt.Sprint(idx)] = digest(res)
			sum.Runs++
		}
		write()
		return
	}

	runs := cfg.Runs
	if runs == 0 {
		runs = p.Runs(cfg.Tier)
	}
	shapes := map[uint64]bool{}
	scheds := map[uint64]bool{}
	seenClass := map[string]bool{}
	maxViol := cfg.MaxViol
	if maxViol == 0 {
		maxViol = 3
	}
	for idx := cfg.Worker; idx < runs; idx += cfg.NWorkers {
		if cfg.WallBudgetS > 0 && time.Since(start) > time.Duration(cfg.WallBudgetS)*time.Second {
			sum.Counters["exploration_cut_short_by_wall_clock_budget"] = 1
			sum.Counters["runs_not_executed_within_wall_clock_budget"] = int64((runs - idx + cfg.NWorkers - 1) / cfg.NWorkers)
			break
		}
		seed := runSeed(&cfg, idx)
		wantSample := len(sum.Samples) < 3 && (idx/cfg.NWorkers)%29 == 1
		t0 := time.Now()
		res, orig := run(SingleSpec{Idx: idx, Seed: seed, Record: wantSample})
		if os.Getenv("VERIF_DEBUG") != "" {
			fmt.Fprintf(os.Stderr, "run %d class=%q steps=%d strat=%s wall=%v detail=%s\n", idx, res.Class, res.Steps, res.Strategy, time.Since(t0), res.Detail)
		}
		sum.Runs++
		sum.Steps += int64(res.Steps)
		sum.SimTimeNs += res.SimTimeNs
		for k, v := range res.Counters {
			sum.Counters[k] += v
		}
		if res.Strategy != "" {
			sum.Strategies[res.Strategy]++
		}
		scheds[core.HashString(res.LogHash)] = true
		if res.Nontrivial {
			sum.Nontrivial++
			shapes[core.HashString(res.ShapeKey+"|"+res.LogHash)] = true
		}
		if wantSample && res.Scenario != nil && res.Nontrivial {
			sum.Samples = append(sum.Samples, map[string]interface{}{"run_index": idx, "run_seed": seed, "scenario": res.Scenario, "strategy": res.Strategy, "steps": res.Steps, "class": res.Class})
		}
		switch {
		case res.Class == "":
		case len(res.Class) > 6 && res.Class[:6] == "known:":
			id := res.Class[6:]
			sum.Known[id]++
			if sum.KnownDetail[id] == "" {
				sum.KnownDetail[id] = res.Detail
			}
		case len(res.Class) > 10 && res.Class[:10] == "machinery:":
			sum.Machinery = append(sum.Machinery, fmt.Sprintf("run %d seed %d: %s %s", idx, seed, res.Class, res.Detail))
		default:
			if seenClass[res.Class] || len(sum.Violations) >= maxViol {
				sum.Counters["violations_not_minimised_duplicates"]++
				if sum.Counters["violations_not_minimised_duplicates"] >= 40 {
					// the check has failed many times over: stop exploring, report what was found
					sum.Counters["exploration_cut_short_after_repeated_violations"] = 1
					idx = runs
				}
				continue
			}
			seenClass[res.Class] = true
			class := res.Class
			shrinkS := cfg.ShrinkS
			if shrinkS == 0 {
				shrinkS = 45
			}
			min, execs := core.Shrink(orig, func(v []uint32) bool {
				r, _ := run(SingleSpec{Idx: idx, Tape: v, Replay: true})
				return r.Class == class
			}, 3000, time.Duration(shrinkS)*time.Second)
			final, _ := run(SingleSpec{Idx: idx, Tape: min, Replay: true, Record: true})
			if final.Class != class {
				// shrinking must never change the class; fall back to the original tape
				min = orig
				final, _ = run(SingleSpec{Idx: idx, Tape: min, Replay: true, Record: true})
				if final.Class != class {
					// the violation has changed this process's state (it cannot be re-executed
					// here): report the original observation; the driver replays it in a fresh process
					final.Class, final.Detail = class, res.Detail
				}
			}
			var fl []string
			for k, v := range cfg.Findings {
				if v {
					fl = append(fl, k)
				}
			}
			sort.Strings(fl)
			rf := ReplayFile{Property: cfg.Property, Class: final.Class, Detail: final.Detail, VerifSeed: cfg.VerifSeed, RunIndex: idx, RunSeed: seed, Tier: cfg.Tier,
				Tape: min, TapeFull: orig, Worker: cfg.Worker, NWorkers: cfg.NWorkers, MaxProcs: cfg.MaxProcs, TapeOrig: len(orig), ShrinkRun: execs, Isolated: cfg.Isolate, Findings: fl, Scenario: final.Scenario, Schedule: final.Trace, Strategy: final.Strategy, LogHash: final.LogHash}
			rb, _ := json.MarshalIndent(rf, "", " ")
			os.MkdirAll(cfg.ReplayDir, 0o755)
			rp := filepath.Join(cfg.ReplayDir, fmt.Sprintf("%s-seed%d-run%d.json", cfg.Property, cfg.VerifSeed, idx))
			if err := os.WriteFile(rp, rb, 0o644); err != nil {
				t.Fatal(err)
			}
			sum.Violations = append(sum.Violations, rp)
			if os.Getenv("VERIF_FIRSTFAIL") != "" {
				// regression runs over seeded breakages only ask "is it caught": one
				// minimised violation per worker is enough
				sum.Counters["exploration_cut_short_after_first_violation"] = 1
				idx = runs
			}
		}
	}
	for k := range shapes {
		sum.Shapes = append(sum.Shapes, k)
	}
	for k := range scheds {
		sum.Schedules = append(sum.Schedules, k)
	}
	write()
}
