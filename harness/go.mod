module verifharness

go 1.26

godebug randseednop=0

require github.com/TimothyStiles/poly v0.0.0

replace github.com/TimothyStiles/poly => /nonexistent/poly-scratch
