// Package props holds one scenario generator + oracle per claimed property.
package props

import (
	"testing"

	"verifharness/core"
)

// RunCtx is what a property needs to know about the run it is asked to execute.
type RunCtx struct {
	VerifSeed uint64
	Index     int
	Tier      string
	Record    bool // keep decoded scenario + schedule (replay / samples)
	TmpDir    string
	Findings  map[string]bool // ids of findings listed open in known_findings.json for this property
	// Isolated: this run has a process of its own (the code under test keeps goroutines
	// alive across calls). Goroutines still blocked when the run ends are then expected
	// (an idle worker pool) and cannot be told from a lost send: that one clause is not judged.
	Isolated bool
}

// Prop is one claimed property: how many runs per tier, and how to execute one.
type Prop interface {
	ID() string
	Runs(tier string) int
	// Run executes exactly one simulated run whose every choice comes from tape.
	Run(t *testing.T, tape *core.Tape, rc *RunCtx) *core.Result
	// Components lists what ran real code and what ran a stub.
	Components() (realCode []string, stubs []string)
	// Rule describes generation and the non-triviality rule for the evidence file.
	Rule() string
}

var registry = map[string]Prop{}

func register(p Prop) { registry[p.ID()] = p }

// Get returns a registered property.
func Get(id string) Prop { return registry[id] }

func propSalt(id string) uint64 { return core.HashString("prop:" + id) }

// Violation builds a violation result class.
func violation(clause string) string { return "violation:" + clause }
