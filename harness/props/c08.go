package props

import (
	"encoding/json"
	"fmt"
	"os"
	"path/filepath"
	"sort"
	"strings"
	"testing"

	"github.com/TimothyStiles/poly/transform/codon"

	"verifharness/core"
)

// C08 — Codon usage tables count exactly and never leak between calls.
//
// Histories of table operations (and concurrent batches of re-weightings)
// checked after every step, over every live handle, against a value-semantics
// reference model. A second executable model - "one storage cell per default
// table id" - describes the known open finding (default tables share their
// slices with every value handed out); it is consulted only while that finding
// is listed open in known_findings.json.

type c08 struct{}

func init() { register(c08{}) }

func (c08) ID() string { return "C08" }

func (c08) Runs(tier string) int {
	if tier == "thorough" {
		return 2000000
	}
	return 20000
}

func (c08) Components() ([]string, []string) {
	return []string{"codon.GetCodonTable + package-level default table storage", "Table.OptimizeTable (interleaved at statement granularity in concurrent batches)", "getCodonFrequency", "codon.AddCodonTable", "codon.CompromiseCodonTable", "codon.ParseCodonJSON + encoding/json"},
		[]string{"call histories and concurrent callers (simulator-generated)", "goroutine scheduler", "value-semantics reference model (independent in-frame triplet counter)", "finding model: one storage cell per default table id"}
}

func (c08) Rule() string {
	return "one run = one history of 1..12 steps over table handles: Get(id), Reweight(handle, coding sequence), Add, Compromise, JSON round trip, or a concurrent batch of 2..4 re-weightings of tables with different ids interleaved by the seeded scheduler; after every step every live handle is compared with the value-semantics model, and at the end all 25 default tables are re-requested. Non-trivial: the history contains a re-weighting; distinct = distinct (operation sequence shape, event-log hash)."
}

const c08Finding = "default-table-storage-shared"

var c08IDs = []int{1, 2, 3, 4, 5, 6, 9, 10, 11, 12, 13, 14, 16, 21, 22, 23, 24, 25, 26, 27, 28, 29, 30, 31, 33}

// tval is a deep table value: letter -> triplet -> weight, plus start/stop lists.
type tval struct {
	w       map[string]map[string]int
	starts  string
	stops   string
	anomaly string // duplicate letters / triplets in the observed table
}

func c08Snap(t codon.Table) tval {
	v := tval{w: map[string]map[string]int{}, starts: strings.Join(t.StartCodons, ","), stops: strings.Join(t.StopCodons, ",")}
	seen := map[string]bool{}
	for _, aa := range t.AminoAcids {
		if _, dup := v.w[aa.Letter]; dup {
			v.anomaly += "duplicate amino acid " + aa.Letter + ";"
		} else {
			v.w[aa.Letter] = map[string]int{}
		}
		for _, c := range aa.Codons {
			if seen[c.Triplet] {
				v.anomaly += "duplicate codon " + c.Triplet + ";"
			}
			seen[c.Triplet] = true
			v.w[aa.Letter][c.Triplet] = c.Weight
		}
	}
	return v
}

func (v tval) clone() tval {
	c := tval{w: map[string]map[string]int{}, starts: v.starts, stops: v.stops, anomaly: v.anomaly}
	for l, m := range v.w {
		c.w[l] = map[string]int{}
		for t, w := range m {
			c.w[l][t] = w
		}
	}
	return c
}

// reweighted returns v's assignments with weights taken from counts.
func (v tval) reweighted(counts map[string]int) tval {
	c := v.clone()
	for _, m := range c.w {
		for t := range m {
			m[t] = counts[t]
		}
	}
	return c
}

func (v tval) uniform1() bool {
	for _, m := range v.w {
		for _, w := range m {
			if w != 1 {
				return false
			}
		}
	}
	return true
}

// diff describes the first difference between two table values ("" if equal).
func (v tval) diff(o tval) string {
	if v.anomaly != o.anomaly {
		return "table structure: " + v.anomaly + " vs " + o.anomaly
	}
	if v.starts != o.starts {
		return fmt.Sprintf("start codons %s vs %s", v.starts, o.starts)
	}
	if v.stops != o.stops {
		return fmt.Sprintf("stop codons %s vs %s", v.stops, o.stops)
	}
	var letters []string
	for l := range v.w {
		letters = append(letters, l)
	}
	for l := range o.w {
		if _, ok := v.w[l]; !ok {
			letters = append(letters, l)
		}
	}
	sort.Strings(letters)
	for _, l := range letters {
		a, okA := v.w[l]
		b, okB := o.w[l]
		if !okA || !okB {
			return "amino acid " + l + " present in only one of the two"
		}
		var ts []string
		for t := range a {
			ts = append(ts, t)
		}
		for t := range b {
			if _, ok := a[t]; !ok {
				ts = append(ts, t)
			}
		}
		sort.Strings(ts)
		for _, t := range ts {
			wa, ok1 := a[t]
			wb, ok2 := b[t]
			if !ok1 || !ok2 {
				return fmt.Sprintf("codon %s assigned to %s in only one of the two", t, l)
			}
			if wa != wb {
				return fmt.Sprintf("%s/%s weight %d vs %d", l, t, wa, wb)
			}
		}
	}
	return ""
}

// c08Count is the independent reference: in-frame triplet counts of the upper-cased sequence.
func c08Count(s string) map[string]int {
	b := []byte(s)
	for i, c := range b {
		if c >= 'a' && c <= 'z' {
			b[i] = c - 32
		}
	}
	m := map[string]int{}
	for k := 0; 3*k+3 <= len(b); k++ {
		m[string(b[3*k:3*k+3])]++
	}
	return m
}

var c08Pristine map[int]tval

// c08Init snapshots the 25 default tables once per process, before any operation.
func c08Init() string {
	if c08Pristine != nil {
		return ""
	}
	c08Pristine = map[int]tval{}
	for _, id := range c08IDs {
		v := c08Snap(codon.GetCodonTable(id))
		if v.anomaly != "" || len(v.w) == 0 {
			return fmt.Sprintf("default table %d: %s (%d amino acids)", id, v.anomaly, len(v.w))
		}
		if !v.uniform1() {
			return fmt.Sprintf("default table %d does not carry uniform weight 1 in a fresh process", id)
		}
		c08Pristine[id] = v
	}
	return ""
}

// c08Reset restores weight 1 in the shared default storage through whatever
// aliasing the tree has (a no-op on a tree without aliasing) and reports
// whether all 25 defaults are pristine afterwards.
func c08Reset() string {
	for _, id := range c08IDs {
		t := codon.GetCodonTable(id)
		for a := range t.AminoAcids {
			for c := range t.AminoAcids[a].Codons {
				t.AminoAcids[a].Codons[c].Weight = 1
			}
		}
	}
	for _, id := range c08IDs {
		if d := c08Snap(codon.GetCodonTable(id)).diff(c08Pristine[id]); d != "" {
			return fmt.Sprintf("default table %d: %s", id, d)
		}
	}
	return ""
}

type c08Handle struct {
	tbl    codon.Table
	id     int  // default id of its lineage (genetic code)
	spec   tval // value-semantics expectation
	cell   int  // finding model: storage cell
	origin string
}

type c08Step struct {
	Op     string `json:"op"`
	Result string `json:"result,omitempty"`
}

type c08Scenario struct {
	Steps                 []c08Step       `json:"history"`
	Handles               int             `json:"handles"`
	SpecHolds             bool            `json:"value_semantics_held"`
	FirstSpecDeviation    string          `json:"first_deviation_from_value_semantics,omitempty"`
	FindingHolds          bool            `json:"cell_model_held"`
	FirstFindingDeviation string          `json:"first_deviation_from_cell_model,omitempty"`
	Panics                []core.PanicRec `json:"panics,omitempty"`
}

func c08Sequence(t *core.Tape) (string, string) {
	var n int
	switch t.Weighted(8, 50, 30, 10, 2) {
	case 0:
		n = 0
	case 1:
		n = 1 + t.Draw(40)
	case 2:
		n = 41 + t.Draw(600)
	case 3:
		n = 641 + t.Draw(5000)
	default:
		n = 6000 + t.Draw(94001)
		if t.Draw(5) == 4 {
			n = 100000 - t.Draw(3) // the upper end of the quantified range
		}
	}
	alpha := []string{"ACGT", "ACGT", "acgt", "ACGTacgt", "ACGTNacgtn", "ACGTURYKMSWBDHVNacgtu"}[t.Draw(6)]
	b := make([]byte, n)
	if n > 3000 {
		x := uint32(t.Draw(1<<30)) | 1
		for i := range b {
			x = x*1664525 + 1013904223
			b[i] = alpha[int(x>>16)%len(alpha)]
		}
	} else {
		for i := range b {
			b[i] = alpha[t.Draw(len(alpha))]
		}
	}
	desc := fmt.Sprintf("len=%d alphabet=%s", n, alpha)
	if n <= 48 {
		desc = string(b)
	}
	return string(b), desc
}

func (c08) Run(t *testing.T, tape *core.Tape, rcx *RunCtx) *core.Result {
	res := &core.Result{}
	sc := &c08Scenario{SpecHolds: true, FindingHolds: true}
	if msg := c08Init(); msg != "" {
		res.Class, res.Detail = violation("fresh-default-not-pristine"), msg
		return res
	}
	if msg := c08Reset(); msg != "" {
		res.Class, res.Detail = "machinery:c08-dirty-start", msg
		return res
	}
	findingOpen := rcx.Findings[c08Finding]
	var handles []*c08Handle
	type c08File struct {
		path string
		id   int
		spec tval // what the value-semantics model says was written
		cell tval // what the storage held when it was written (finding model)
	}
	var files []c08File
	defer func() {
		for _, f := range files {
			os.Remove(f.path)
		}
	}()
	cells := map[int]tval{} // finding model storage; cells 1..33 are the defaults, >= 1000 are fresh
	for _, id := range c08IDs {
		cells[id] = c08Pristine[id].clone()
	}
	nextCell := 1000
	var shape []string
	reweights := 0
	var panics []core.PanicRec
	var machinery, stuck string
	var simHash []string
	steps := 0
	simTime := int64(0)
	multi := 0
	skipped := 0
	strategy := ""

	// compare every live handle with both models
	check := func(after string) {
		for i, h := range handles {
			obs := c08Snap(h.tbl)
			if sc.SpecHolds {
				if d := obs.diff(h.spec); d != "" {
					sc.SpecHolds = false
					sc.FirstSpecDeviation = fmt.Sprintf("after %s: handle %d (%s): observed vs value semantics: %s", after, i, h.origin, d)
				}
			}
			if sc.FindingHolds {
				if d := obs.diff(cells[h.cell]); d != "" {
					sc.FindingHolds = false
					sc.FirstFindingDeviation = fmt.Sprintf("after %s: handle %d (%s): observed vs cell model: %s", after, i, h.origin, d)
				}
			}
		}
	}
	pickHandle := func() *c08Handle {
		if len(handles) == 0 {
			return nil
		}
		return handles[tape.Draw(len(handles))]
	}
	newGet := func() *c08Handle {
		id := c08IDs[tape.Draw(len(c08IDs))]
		// bias towards few ids so that histories revisit the same table
		if tape.Chance(60) {
			id = []int{11, 1, 4}[tape.Draw(3)]
		}
		h := &c08Handle{tbl: codon.GetCodonTable(id), id: id, spec: c08Pristine[id].clone(), cell: id, origin: fmt.Sprintf("Get(%d)", id)}
		handles = append(handles, h)
		sc.Steps = append(sc.Steps, c08Step{Op: h.origin, Result: fmt.Sprintf("h%d", len(handles)-1)})
		shape = append(shape, "G")
		return h
	}
	applyReweight := func(h *c08Handle, seq string, out codon.Table, desc string) {
		counts := c08Count(seq)
		nh := &c08Handle{tbl: out, id: h.id, spec: h.spec.reweighted(counts), cell: h.cell, origin: "Reweight(" + h.origin + ")"}
		cells[h.cell] = cells[h.cell].reweighted(counts)
		handles = append(handles, nh)
		reweights++
	}

	leak, pv := core.Bubble(t, func() {
		nsteps := 1 + tape.Draw(12)
		for s := 0; s < nsteps; s++ {
			op := tape.Weighted(30, 40, 8, 8, 6, 8)
			if len(handles) == 0 {
				op = 0
			}
			switch op {
			case 0:
				newGet()
				check(sc.Steps[len(sc.Steps)-1].Op)
			case 1:
				h := pickHandle()
				seq, desc := c08Sequence(tape)
				hi := indexOf(handles, h)
				out := h.tbl.OptimizeTable(seq)
				applyReweight(h, seq, out, desc)
				sc.Steps = append(sc.Steps, c08Step{Op: fmt.Sprintf("Reweight(h%d, %s)", hi, desc), Result: fmt.Sprintf("h%d", len(handles)-1)})
				shape = append(shape, "R")
				check(sc.Steps[len(sc.Steps)-1].Op)
			case 2, 3:
				h1 := pickHandle()
				// second operand of the same genetic code
				var same []*c08Handle
				for _, h := range handles {
					if h.id == h1.id {
						same = append(same, h)
					}
				}
				h2 := same[tape.Draw(len(same))]
				i1, i2 := indexOf(handles, h1), indexOf(handles, h2)
				var out codon.Table
				var opName string
				if op == 2 {
					out = codon.AddCodonTable(h1.tbl, h2.tbl)
					opName = fmt.Sprintf("Add(h%d, h%d)", i1, i2)
					shape = append(shape, "A")
				} else {
					cut := []float64{0, 0.05, 0.1, 0.25, 0.5, 1}[tape.Draw(6)]
					var err error
					out, err = codon.CompromiseCodonTable(h1.tbl, h2.tbl, cut)
					opName = fmt.Sprintf("Compromise(h%d, h%d, %v)", i1, i2, cut)
					shape = append(shape, "C")
					if err != nil {
						sc.Steps = append(sc.Steps, c08Step{Op: opName, Result: "error: " + err.Error()})
						continue
					}
				}
				snap := c08Snap(out)
				nh := &c08Handle{tbl: out, id: h1.id, spec: snap.clone(), cell: nextCell, origin: opName}
				cells[nextCell] = snap.clone()
				nextCell++
				handles = append(handles, nh)
				sc.Steps = append(sc.Steps, c08Step{Op: opName, Result: fmt.Sprintf("h%d", len(handles)-1)})
				check(opName)
			case 4:
				// JSON round trip: in memory, through a file (the library's own writer and
				// reader), or reading again a file written earlier in this history - which
				// must still hold what was written then, whatever happened to the tables since
				mode := tape.Weighted(45, 35, 20)
				if mode == 2 && len(files) == 0 {
					mode = 1
				}
				var nh *c08Handle
				switch mode {
				case 0:
					h := pickHandle()
					b, err := json.Marshal(h.tbl)
					if err != nil {
						panic("harness: json.Marshal: " + err.Error())
					}
					nh = &c08Handle{tbl: codon.ParseCodonJSON(b), id: h.id, spec: h.spec.clone(), cell: nextCell, origin: fmt.Sprintf("JSON(h%d)", indexOf(handles, h))}
					cells[nextCell] = cells[h.cell].clone()
				case 1:
					h := pickHandle()
					path := filepath.Join(rcx.TmpDir, fmt.Sprintf("c08-%d-%d.json", rcx.Index, len(files)))
					codon.WriteCodonJSON(h.tbl, path)
					files = append(files, c08File{path: path, id: h.id, spec: h.spec.clone(), cell: cells[h.cell].clone()})
					nh = &c08Handle{tbl: codon.ReadCodonJSON(path), id: h.id, spec: h.spec.clone(), cell: nextCell, origin: fmt.Sprintf("ReadCodonJSON(WriteCodonJSON(h%d, f%d))", indexOf(handles, h), len(files)-1)}
					cells[nextCell] = cells[h.cell].clone()
					res.Count("probe_json_through_a_file", 1)
				default:
					fi := tape.Draw(len(files))
					f := files[fi]
					nh = &c08Handle{tbl: codon.ReadCodonJSON(f.path), id: f.id, spec: f.spec.clone(), cell: nextCell, origin: fmt.Sprintf("ReadCodonJSON(f%d) again", fi)}
					cells[nextCell] = f.cell.clone()
					res.Count("probe_json_file_read_again_later", 1)
				}
				nextCell++
				handles = append(handles, nh)
				sc.Steps = append(sc.Steps, c08Step{Op: nh.origin, Result: fmt.Sprintf("h%d", len(handles)-1)})
				shape = append(shape, "J")
				check(nh.origin)
			case 5:
				// concurrent batch: 2..4 re-weightings of tables with pairwise different default ids
				n := 2 + tape.Draw(3)
				var batch []*c08Handle
				usedID := map[int]bool{}
				for _, h := range handles {
					if !usedID[h.id] && h.cell < 1000 && len(batch) < n {
						usedID[h.id] = true
						batch = append(batch, h)
					}
				}
				for len(batch) < n {
					var free []int
					for _, id := range c08IDs {
						if !usedID[id] {
							free = append(free, id)
						}
					}
					id := free[tape.Draw(len(free))]
					usedID[id] = true
					h := &c08Handle{tbl: codon.GetCodonTable(id), id: id, spec: c08Pristine[id].clone(), cell: id, origin: fmt.Sprintf("Get(%d)", id)}
					handles = append(handles, h)
					sc.Steps = append(sc.Steps, c08Step{Op: h.origin, Result: fmt.Sprintf("h%d", len(handles)-1)})
					batch = append(batch, h)
				}
				seqs := make([]string, n)
				descs := make([]string, n)
				outs := make([]codon.Table, n)
				total := 0
				for i := range batch {
					seqs[i], descs[i] = c08Sequence(tape)
					if len(seqs[i]) > 6000 {
						// long sequences belong to the sequential operations (which run
						// at full speed); inside an interleaved batch every statement is
						// a scheduler step
						seqs[i] = seqs[i][:6000-tape.Draw(3)]
						descs[i] = fmt.Sprintf("first %d letters of (%s)", len(seqs[i]), descs[i])
					}
					total += len(seqs[i])
				}
				sim := core.NewSim(tape)
				sim.Record = rcx.Record
				sim.MaxSteps = 60*total + 100000 // generous even if counting becomes a per-letter yield loop
				for i := range batch {
					i := i
					sim.Go(func() { outs[i] = batch[i].tbl.OptimizeTable(seqs[i]) })
				}
				sim.Run()
				steps += sim.Steps
				multi += sim.Multi
				skipped += sim.Skipped
				strategy = sim.Strategy
				simHash = append(simHash, sim.LogHash())
				panics = append(panics, sim.Panics...)
				if rcx.Record {
					res.Trace = append(res.Trace, sim.Trace...)
				}
				if sim.End == core.EndMachinery {
					machinery = sim.MachineryError()
				} else if sim.End != core.EndQuiescent {
					stuck = fmt.Sprintf("concurrent batch of %d re-weightings (%d letters in total) ended with %s after %d scheduler steps", n, total, sim.End, sim.Steps)
				}
				var names []string
				for i, h := range batch {
					names = append(names, fmt.Sprintf("Reweight(h%d, %s)", indexOf(handles, h), descs[i]))
				}
				for i, h := range batch {
					applyReweight(h, seqs[i], outs[i], descs[i])
				}
				opName := "concurrent{" + strings.Join(names, " || ") + "}"
				sc.Steps = append(sc.Steps, c08Step{Op: opName, Result: fmt.Sprintf("h%d..h%d", len(handles)-n, len(handles)-1)})
				shape = append(shape, fmt.Sprintf("P%d", n))
				res.Count("probe_concurrent_batches", 1)
				check(opName)
			}
		}
		// end of history: every default table is requested afresh
		for _, id := range c08IDs {
			h := &c08Handle{tbl: codon.GetCodonTable(id), id: id, spec: c08Pristine[id].clone(), cell: id, origin: fmt.Sprintf("final Get(%d)", id)}
			handles = append(handles, h)
		}
		check("end of history (all 25 defaults requested afresh)")
	})
	_ = leak
	sc.Handles = len(handles)
	sc.Panics = panics
	res.Steps = steps
	res.SimTimeNs = simTime
	res.Strategy = strategy
	res.LogHash = fmt.Sprintf("%016x", core.HashString(strings.Join(simHash, "|")+"|"+sc.FirstSpecDeviation+"|"+sc.FirstFindingDeviation))
	res.Nontrivial = reweights > 0
	res.ShapeKey = strings.Join(shape, "")
	res.Count("decisions_with_choice", int64(multi))
	res.Count("yields_passed_by_a_lone_runnable_task", int64(skipped))
	res.Count("reweight_operations", int64(reweights))
	if rcx.Record {
		res.Scenario = sc
	}
	dirty := c08Reset()
	switch {
	case pv != nil:
		res.Class, res.Detail = "machinery:harness-panic", fmt.Sprint(pv)
	case machinery != "":
		res.Class, res.Detail = "machinery:scheduler", machinery
	case len(panics) > 0:
		res.Class, res.Detail = violation("panic"), fmt.Sprintf("%s at %s", panics[0].Value, panics[0].Site)
	case stuck != "":
		res.Class, res.Detail = violation("concurrent-reweighting-did-not-finish"), stuck
	case dirty != "":
		res.Class, res.Detail = violation("default-tables-permanently-changed"), dirty
		c08Pristine = nil // this process can no longer start a run from a pristine state
	case sc.SpecHolds:
	case sc.FindingHolds && findingOpen:
		res.Class, res.Detail = "known:"+c08Finding, sc.FirstSpecDeviation
	default:
		if sc.FindingHolds {
			res.Class, res.Detail = violation("table-state-leaks-between-calls"), sc.FirstSpecDeviation
		} else {
			res.Class, res.Detail = violation("table-state-explained-by-neither-model"), sc.FirstFindingDeviation+" ;; "+sc.FirstSpecDeviation
		}
	}
	return res
}

func indexOf(hs []*c08Handle, h *c08Handle) int {
	for i, x := range hs {
		if x == h {
			return i
		}
	}
	return -1
}
