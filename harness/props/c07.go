package props

import (
	"fmt"
	"math"
	"sort"
	"strings"
	"testing"
	"time"

	"github.com/TimothyStiles/poly/random"
	"github.com/TimothyStiles/poly/transform/codon"

	"verifharness/core"
)

// C07 — Optimized coding sequences translate back to the requested protein.
//
// Optimize is not a function of its arguments: it re-seeds the process-wide
// math/rand source from the wall clock and then draws from it, and every other
// caller of Optimize or random.ProteinSequence re-seeds and draws from the
// same source. The simulator owns the clock (synctest fake time, advanced by
// drawn steps including stalls) and the interleaving of concurrent callers.

type c07 struct{}

func init() { register(c07{}) }

func (c07) ID() string { return "C07" }

func (c07) Runs(tier string) int {
	if tier == "thorough" {
		return 600000
	}
	return 16000
}

func (c07) Components() ([]string, []string) {
	return []string{"codon.Optimize (clock-seeded process-wide RNG, weighted pick)", "Table.chooser (10% threshold)", "codon.Translate", "random.ProteinSequence", "Table.OptimizeTable (to build re-weighted tables on harness-owned deep copies)", "github.com/mroth/weightedrand", "math/rand global source (randseednop=0)"},
		[]string{"wall clock (testing/synctest fake clock advanced by drawn steps: stall, 1ns .. years)", "concurrent callers and their interleaving (seeded scheduler)", "independent triplet->letter decoder, eligibility rule 10*w > sum, exact binomial tail"}
}

func (c07) Rule() string {
	return "one run = either (a) 1..3 simulated callers performing 1..20 calls of Optimize / random.ProteinSequence on drawn tables (25 defaults, re-weighted, tiny-weight, crafted edge tables) and proteins (encodable, generator outputs, unencodable injections), sequentially or interleaved at statement granularity, with the fake clock advanced by a drawn step before every call; or (b) a proportionality batch: one table, >= 10^5 codon draws (10^6 in the thorough tier) tested per (amino acid, codon) cell against the exact binomial tail. Non-trivial: at least one Optimize call on an encodable protein of length >= 2 or an unencodable injection; distinct = distinct (shape, event-log hash)."
}

type c07Table struct {
	tp     *codon.Table // shared by every snapshot of the same table: re-weighting replaces *tp
	desc   string
	letter map[string]string         // triplet -> letter
	w      map[string]map[string]int // letter -> triplet -> weight
	sum    map[string]int
	usable []string // letters with positive usage (sorted)
	dead   []string // letters whose codons all have zero weight
}

func c07DeepDefault(id int) codon.Table {
	src := codon.GetCodonTable(id)
	var c codon.Table
	c.StartCodons = append([]string{}, src.StartCodons...)
	c.StopCodons = append([]string{}, src.StopCodons...)
	for _, aa := range src.AminoAcids {
		n := codon.AminoAcid{Letter: aa.Letter}
		for _, cd := range aa.Codons {
			n.Codons = append(n.Codons, codon.Codon{Triplet: cd.Triplet, Weight: 1})
		}
		c.AminoAcids = append(c.AminoAcids, n)
	}
	sort.SliceStable(c.AminoAcids, func(i, j int) bool { return c.AminoAcids[i].Letter < c.AminoAcids[j].Letter })
	return c
}

func c07Index(t codon.Table, desc string) *c07Table {
	x := &c07Table{tp: &t, desc: desc, letter: map[string]string{}, w: map[string]map[string]int{}, sum: map[string]int{}}
	for _, aa := range t.AminoAcids {
		x.w[aa.Letter] = map[string]int{}
		for _, c := range aa.Codons {
			x.letter[c.Triplet] = aa.Letter
			x.w[aa.Letter][c.Triplet] = c.Weight
			x.sum[aa.Letter] += c.Weight
		}
		if x.sum[aa.Letter] > 0 {
			x.usable = append(x.usable, aa.Letter)
		} else {
			x.dead = append(x.dead, aa.Letter)
		}
	}
	sort.Strings(x.usable)
	sort.Strings(x.dead)
	return x
}

// withWeights is the model of re-weighting the same table storage in place:
// same codon.Table value (same slices), new weights.
func (x *c07Table) withWeights(w func(letter, triplet string) int, desc string) *c07Table {
	n := &c07Table{tp: x.tp, desc: desc, letter: x.letter, w: map[string]map[string]int{}, sum: map[string]int{}}
	var letters []string
	for l := range x.w {
		letters = append(letters, l)
	}
	sort.Strings(letters)
	for _, l := range letters {
		n.w[l] = map[string]int{}
		for tr := range x.w[l] {
			v := w(l, tr)
			n.w[l][tr] = v
			n.sum[l] += v
		}
		if n.sum[l] > 0 {
			n.usable = append(n.usable, l)
		} else {
			n.dead = append(n.dead, l)
		}
	}
	return n
}

func (x *c07Table) eligible(letter, triplet string) bool {
	w := x.w[letter][triplet]
	return w > 0 && 10*w > x.sum[letter]
}

func (x *c07Table) eligibleSum(letter string) int {
	s := 0
	for t, w := range x.w[letter] {
		if x.eligible(letter, t) {
			s += w
		}
	}
	return s
}

// c07DrawTable draws a table: default, re-weighted from a random coding
// sequence, tiny weights, large weights, or a crafted edge table.
func c07DrawTable(t *core.Tape) *c07Table {
	id := c08IDs[t.Draw(len(c08IDs))]
	tb := c07DeepDefault(id)
	kind := t.Weighted(25, 35, 20, 8, 12)
	switch kind {
	case 0:
		return c07Index(tb, fmt.Sprintf("default %d (uniform weight 1)", id))
	case 1:
		// re-weighted by the library from a random coding sequence of 30..3000 codons
		n := 30 + t.Draw(2971)
		var trip []string
		for _, aa := range tb.AminoAcids {
			for _, c := range aa.Codons {
				trip = append(trip, c.Triplet)
			}
		}
		var b strings.Builder
		x := uint32(t.Draw(1<<30)) | 1
		skew := 1 + t.Draw(4)
		for i := 0; i < n; i++ {
			x = x*1664525 + 1013904223
			k := int(x>>8) % len(trip)
			for s := 1; s < skew; s++ { // skew towards low indices: uneven usage
				x = x*1664525 + 1013904223
				if k2 := int(x>>8) % len(trip); k2 < k {
					k = k2
				}
			}
			b.WriteString(trip[k])
		}
		tb = tb.OptimizeTable(b.String())
		return c07Index(tb, fmt.Sprintf("default %d re-weighted from a random coding sequence of %d codons (skew %d)", id, n, skew))
	case 2:
		for a := range tb.AminoAcids {
			for c := range tb.AminoAcids[a].Codons {
				tb.AminoAcids[a].Codons[c].Weight = t.Draw(6)
			}
		}
		return c07Index(tb, fmt.Sprintf("default %d with tiny weights 0..5", id))
	case 3:
		for a := range tb.AminoAcids {
			for c := range tb.AminoAcids[a].Codons {
				tb.AminoAcids[a].Codons[c].Weight = t.Draw(1000000)
			}
		}
		return c07Index(tb, fmt.Sprintf("default %d with large weights < 10^6", id))
	default:
		// crafted: a codon at exactly 10% share, zero-weight codons, an all-zero amino acid
		patterns := [][]int{{1, 9}, {9, 1}, {2, 18}, {1, 1, 8}, {1, 4, 5}, {0, 7}, {0, 0, 3}, {1, 1, 1, 5}, {1, 1, 1, 1, 6}, {10, 90}, {11, 89}, {0, 0}, {3, 27, 0}, {1, 2, 3, 4}}
		for a := range tb.AminoAcids {
			p := patterns[t.Draw(len(patterns))]
			for c := range tb.AminoAcids[a].Codons {
				tb.AminoAcids[a].Codons[c].Weight = p[c%len(p)]
			}
		}
		return c07Index(tb, fmt.Sprintf("default %d crafted (exact 10%% shares, zero weights, all-zero amino acids)", id))
	}
}

type c07Call struct {
	Caller  int    `json:"caller"`
	Op      string `json:"op"`
	Clock   string `json:"clock_step_before"`
	Protein string `json:"protein,omitempty"`
	Expect  string `json:"expect"`
	Got     string `json:"got,omitempty"`
}

type c07Scenario struct {
	Mode   string          `json:"mode"`
	Table  string          `json:"table"`
	Tables []string        `json:"tables,omitempty"`
	Calls  []c07Call       `json:"calls,omitempty"`
	Draws  int             `json:"codon_draws,omitempty"`
	Cells  int             `json:"cells_tested,omitempty"`
	Worst  string          `json:"least_likely_cell,omitempty"`
	Panics []core.PanicRec `json:"panics,omitempty"`
}

func c07ClockStep(t *core.Tape) time.Duration {
	switch t.Weighted(15, 15, 20, 20, 15, 10, 5) {
	case 0:
		return 0 // stall: the next call sees the same instant (same seed)
	case 1:
		return 1
	case 2:
		return time.Duration(1 + t.Draw(1000))
	case 3:
		return time.Duration(1+t.Draw(1000)) * time.Microsecond
	case 4:
		return time.Duration(1+t.Draw(100000)) * time.Millisecond
	case 5:
		return time.Duration(1+t.Draw(1000)) * time.Hour
	default:
		return time.Duration(1+t.Draw(20)) * 365 * 24 * time.Hour
	}
}

// c07MaxSimTime caps the simulated time of one run: the fake clock starts in
// the year 2000 and time.Time's int64 nanoseconds end in 2262.
const c07MaxSimTime = 200 * 365 * 24 * time.Hour

// c07CheckDNA is the per-call oracle for an encodable protein.
func c07CheckDNA(x *c07Table, protein, dna string, err error) string {
	if err != nil {
		return "encodable protein rejected: " + err.Error()
	}
	if len(dna) != 3*len(protein) {
		return fmt.Sprintf("DNA has %d bases for %d residues", len(dna), len(protein))
	}
	for i := 0; i < len(protein); i++ {
		tr := dna[3*i : 3*i+3]
		l := string(protein[i])
		if x.letter[tr] != l {
			return fmt.Sprintf("residue %d is %s but codon %s encodes %q", i, l, tr, x.letter[tr])
		}
		if !x.eligible(l, tr) {
			return fmt.Sprintf("residue %d (%s): emitted codon %s has weight %d of %d (share not above 10%%)", i, l, tr, x.w[l][tr], x.sum[l])
		}
	}
	back, terr := codon.Translate(dna, *x.tp)
	if terr != nil || back != protein {
		return fmt.Sprintf("Translate(Optimize(p)) = %q, %v", clip(back), terr)
	}
	return ""
}

// logBinomTail returns log10 of the two-sided exact binomial tail probability
// of observing k successes in n trials with success probability p.
func binomTwoSided(k, n int, p float64) float64 {
	if p <= 0 {
		if k == 0 {
			return 1
		}
		return 0
	}
	if p >= 1 {
		if k == n {
			return 1
		}
		return 0
	}
	lg := func(x int) float64 { v, _ := math.Lgamma(float64(x) + 1); return v }
	lpmf := func(i int) float64 {
		return lg(n) - lg(i) - lg(n-i) + float64(i)*math.Log(p) + float64(n-i)*math.Log1p(-p)
	}
	sumFrom := func(start, dir int) float64 {
		s := 0.0
		for i := start; i >= 0 && i <= n; i += dir {
			term := math.Exp(lpmf(i))
			s += term
			if term < s*1e-18 && (float64(i)-float64(n)*p)*float64(dir) > 0 {
				break
			}
		}
		return s
	}
	lower := sumFrom(k, -1)
	upper := sumFrom(k, +1)
	v := 2 * math.Min(lower, upper)
	if v > 1 {
		v = 1
	}
	return v
}

// chi2sf is the survival function of the chi-square distribution:
// Q(df/2, x/2), the regularised upper incomplete gamma function.
func chi2sf(x float64, df int) float64 {
	if x <= 0 || df <= 0 {
		return 1
	}
	a := float64(df) / 2
	x /= 2
	lg, _ := math.Lgamma(a)
	if x < a+1 {
		// series for P(a,x)
		ap, sum, del := a, 1/a, 1/a
		for n := 0; n < 10000; n++ {
			ap++
			del *= x / ap
			sum += del
			if math.Abs(del) < math.Abs(sum)*1e-16 {
				break
			}
		}
		return 1 - sum*math.Exp(-x+a*math.Log(x)-lg)
	}
	// continued fraction for Q(a,x) (modified Lentz)
	const tiny = 1e-300
	b := x + 1 - a
	c := 1 / tiny
	d := 1 / b
	h := d
	for i := 1; i < 10000; i++ {
		an := -float64(i) * (float64(i) - a)
		b += 2
		d = an*d + b
		if math.Abs(d) < tiny {
			d = tiny
		}
		c = b + an/c
		if math.Abs(c) < tiny {
			c = tiny
		}
		d = 1 / d
		del := d * c
		h *= del
		if math.Abs(del-1) < 1e-16 {
			break
		}
	}
	return math.Exp(-x+a*math.Log(x)-lg) * h
}

func (c07) Run(t *testing.T, tape *core.Tape, rcx *RunCtx) *core.Result {
	res := &core.Result{}
	if core.Mix(uint64(rcx.Index), 0xc07)%8 == 3 { // one run in eight, spread evenly over the worker processes
		return c07Proportion(t, tape, rcx, res)
	}
	sc := &c07Scenario{}
	ncallers := 1
	concurrent := tape.Chance(35)
	if concurrent {
		ncallers = 2 + tape.Draw(2)
		sc.Mode = fmt.Sprintf("concurrent (%d callers interleaved)", ncallers)
	} else {
		sc.Mode = "sequential"
	}
	// tables used in this run
	ntab := 1 + tape.Draw(2)
	var tabs []*c07Table
	for i := 0; i < ntab; i++ {
		tabs = append(tabs, c07DrawTable(tape))
		sc.Tables = append(sc.Tables, tabs[i].desc)
	}
	type call struct {
		op        int // 0 Optimize, 1 ProteinSequence
		tab       *c07Table
		protein   string
		fromGen   bool
		encodable bool
		reason    string
		plen      int
		pseed     int64
		step      time.Duration
		dna       string
		err       error
		out       string
		done      bool
		rwSeq     string                    // op 2: re-weight in place through the library from this coding sequence ...
		rwDirect  map[string]map[string]int // ... or by assigning these weights directly
		rwDesc    string
	}
	maxLen := 2000
	if concurrent {
		maxLen = 40
	}
	plan := make([][]*call, ncallers)
	total := 0
	var planned time.Duration
	for c := 0; c < ncallers; c++ {
		n := 1 + tape.Draw(20)
		if concurrent {
			n = 1 + tape.Draw(5)
		}
		for i := 0; i < n; i++ {
			cl := &call{step: c07ClockStep(tape)}
			if planned+cl.step > c07MaxSimTime {
				cl.step = time.Hour
			}
			planned += cl.step
			if !concurrent && tape.Chance(12) {
				// re-weight one of the tables IN PLACE (same storage the previous calls used):
				// later Optimize calls must follow the new weights
				cl.op = 2
				ti := tape.Draw(len(tabs))
				x := tabs[ti]
				if tape.Chance(60) {
					var trip []string
					for tr := range x.letter {
						trip = append(trip, tr)
					}
					sort.Strings(trip)
					n := 5 + tape.Draw(300)
					var b strings.Builder
					for j := 0; j < n; j++ {
						b.WriteString(trip[tape.Draw(len(trip))])
					}
					cl.rwSeq = b.String()
					counts := c08Count(cl.rwSeq)
					cl.rwDesc = fmt.Sprintf("table %d re-weighted in place by OptimizeTable from %d codons", ti, n)
					tabs[ti] = x.withWeights(func(l, tr string) int { return counts[tr] }, x.desc+" -> re-weighted in place from "+fmt.Sprint(n)+" codons")
				} else {
					cl.rwDirect = map[string]map[string]int{}
					for l, m := range x.w {
						cl.rwDirect[l] = map[string]int{}
						for tr := range m {
							cl.rwDirect[l][tr] = 0
						}
					}
					var ls []string
					for l := range cl.rwDirect {
						ls = append(ls, l)
					}
					sort.Strings(ls)
					for _, l := range ls {
						var ts []string
						for tr := range cl.rwDirect[l] {
							ts = append(ts, tr)
						}
						sort.Strings(ts)
						for _, tr := range ts {
							cl.rwDirect[l][tr] = tape.Draw(6)
						}
					}
					d := cl.rwDirect
					cl.rwDesc = fmt.Sprintf("table %d: weights 0..5 assigned in place", ti)
					tabs[ti] = x.withWeights(func(l, tr string) int { return d[l][tr] }, x.desc+" -> tiny weights assigned in place")
				}
				cl.tab = x
				res.Count("probe_table_reweighted_in_place_between_calls", 1)
			} else if tape.Chance(25) {
				cl.op = 1
				cl.plen = 3 + tape.Draw(maxLen-2)
				if tape.Chance(10) {
					cl.plen = tape.Draw(3) // too short: must be an error
				}
				cl.pseed = int64(tape.Draw(1 << 30))
			} else {
				cl.tab = tabs[tape.Draw(len(tabs))]
				x := cl.tab
				kind := tape.Weighted(55, 20, 25)
				if len(x.usable) == 0 {
					kind = 2
				}
				switch kind {
				case 0, 1:
					l := 1 + tape.Draw(maxLen)
					if kind == 1 {
						l = []int{1, 2, 3, maxLen}[tape.Draw(4)]
					}
					b := make([]byte, l)
					for j := range b {
						b[j] = x.usable[tape.Draw(len(x.usable))][0]
					}
					cl.protein, cl.encodable = string(b), true
				default:
					// unencodable injection
					base := ""
					if len(x.usable) > 0 {
						l := tape.Draw(30)
						b := make([]byte, l)
						for j := range b {
							b[j] = x.usable[tape.Draw(len(x.usable))][0]
						}
						base = string(b)
					}
					pos := tape.Draw(len(base) + 1)
					var bad string
					switch k := tape.Draw(4); {
					case k == 0 && len(x.usable) > 0:
						bad = strings.ToLower(x.usable[tape.Draw(len(x.usable))])
						if bad == "*" {
							bad = "m"
						}
						cl.reason = "lower-case residue"
					case k == 1 && len(x.dead) > 0:
						bad = x.dead[tape.Draw(len(x.dead))]
						cl.reason = "amino acid whose codons all have zero weight"
					case k == 2:
						bad = []string{"é", "λ", "漢"}[tape.Draw(3)]
						cl.reason = "non-ASCII letter"
					default:
						bad = []string{"J", "B", "Z", "X", "U", "O", "1", "-", " "}[tape.Draw(9)]
						if _, ok := x.w[bad]; ok {
							bad = "J"
						}
						cl.reason = "letter absent from the table"
					}
					cl.protein = base[:pos] + bad + base[pos:]
				}
			}
			plan[c] = append(plan[c], cl)
			total++
			if cl.op == 1 && cl.plen > 2 {
				// every generator output is fed to Optimize by the same caller
				st := c07ClockStep(tape)
				if planned+st > c07MaxSimTime {
					st = time.Hour
				}
				planned += st
				plan[c] = append(plan[c], &call{op: 0, tab: tabs[tape.Draw(len(tabs))], fromGen: true, step: st})
				total++
			}
		}
	}
	// generator outputs are fed to Optimize within the same caller
	var lastGen = make([]string, ncallers)
	exec := func(c int, cl *call, sleep func(time.Duration)) {
		sleep(cl.step)
		if cl.op == 2 {
			if cl.rwSeq != "" {
				// the result is what later calls use: correct whether OptimizeTable re-weights its
				// receiver's storage in place or returns an independent table
				*cl.tab.tp = cl.tab.tp.OptimizeTable(cl.rwSeq)
			} else {
				t := *cl.tab.tp
				for a := range t.AminoAcids {
					for k := range t.AminoAcids[a].Codons {
						t.AminoAcids[a].Codons[k].Weight = cl.rwDirect[t.AminoAcids[a].Letter][t.AminoAcids[a].Codons[k].Triplet]
					}
				}
			}
		} else if cl.op == 1 {
			cl.out, cl.err = random.ProteinSequence(cl.plen, cl.pseed)
			if cl.err == nil {
				lastGen[c] = cl.out
			}
		} else {
			if cl.fromGen {
				cl.protein = lastGen[c]
			}
			cl.dna, cl.err = codon.Optimize(cl.protein, *cl.tab.tp)
		}
		cl.done = true
	}
	var sim *core.Sim
	var simTime time.Duration
	var freePanic interface{}
	_, pv := core.Bubble(t, func() {
		if !concurrent {
			func() {
				defer func() { freePanic = recover() }()
				for _, cl := range plan[0] {
					exec(0, cl, func(d time.Duration) {
						if d > 0 {
							time.Sleep(d)
							simTime += d
						}
					})
				}
			}()
			return
		}
		sim = core.NewSim(tape)
		sim.Record = rcx.Record
		sim.MaxSteps = 400000
		for c := range plan {
			c := c
			sim.Go(func() {
				for _, cl := range plan[c] {
					exec(c, cl, func(d time.Duration) { sim.SleepThenYield(d, "client:clock-step") })
				}
			})
		}
		sim.Run()
		simTime = sim.SimTime
	})
	res.SimTimeNs = int64(simTime)
	hashParts := []string{}
	if sim != nil {
		res.Steps, res.Strategy, res.Trace = sim.Steps, sim.Strategy, sim.Trace
		hashParts = append(hashParts, sim.LogHash())
		res.Count("decisions_with_choice", int64(sim.Multi))
		res.Count("yields_passed_by_a_lone_runnable_task", int64(sim.Skipped))
		sc.Panics = sim.Panics
	}
	// ---- oracle ----
	bad := ""
	class := ""
	for c := range plan {
		for _, cl := range plan[c] {
			cc := c07Call{Caller: c, Clock: cl.step.String()}
			if cl.step == 0 {
				res.Count("fault_clock_stall", 1)
			} else if cl.step >= 365*24*time.Hour {
				res.Count("fault_clock_jump_years", 1)
			}
			if cl.op == 2 {
				cc.Op = cl.rwDesc
				if rcx.Record {
					sc.Calls = append(sc.Calls, cc)
				}
				continue
			}
			if cl.op == 1 {
				cc.Op = fmt.Sprintf("ProteinSequence(%d, %d)", cl.plen, cl.pseed)
				cc.Got = clip(cl.out)
				if cl.err != nil {
					cc.Got = "error: " + cl.err.Error()
				}
				hashParts = append(hashParts, cl.out)
				if rcx.Record {
					sc.Calls = append(sc.Calls, cc)
				}
				continue
			}
			x := cl.tab
			cc.Op = "Optimize on " + x.desc
			cc.Protein = clip(cl.protein)
			hashParts = append(hashParts, cl.dna)
			if !cl.done {
				cc.Expect, cc.Got = "a result", "call did not complete"
				if bad == "" && len(sc.Panics) == 0 && freePanic == nil {
					bad, class = "a call never completed", "call-did-not-complete"
				}
				if rcx.Record {
					sc.Calls = append(sc.Calls, cc)
				}
				continue
			}
			enc := cl.encodable
			if cl.fromGen {
				enc = true
				for _, r := range cl.protein {
					if x.sum[string(r)] <= 0 {
						enc = false
					}
				}
				res.Count("probe_generator_output_fed_to_optimize", 1)
				if !enc {
					res.Count("probe_generator_output_unencodable(J)", 1)
					cl.reason = "generator output contains a residue without positive usage in this table"
				}
			}
			if enc {
				cc.Expect = "DNA that translates back"
				if len(cl.protein) >= 2 {
					res.Nontrivial = true
				}
				if d := c07CheckDNA(x, cl.protein, cl.dna, cl.err); d != "" {
					cc.Got = d
					if bad == "" {
						bad, class = fmt.Sprintf("Optimize(%q) on %s: %s", clip(cl.protein), x.desc, d), "wrong-dna"
					}
				}
			} else {
				res.Nontrivial = true
				res.Count("probe_unencodable_residue_injected", 1)
				cc.Expect = "an error (" + cl.reason + ")"
				if cl.err == nil {
					cc.Got = fmt.Sprintf("no error, DNA %q", clip(cl.dna))
					if bad == "" {
						bad, class = fmt.Sprintf("Optimize(%q) on %s: unencodable residue (%s) accepted, returned %q", clip(cl.protein), x.desc, cl.reason, clip(cl.dna)), "unencodable-accepted"
					}
				} else {
					cc.Got = "error: " + cl.err.Error()
				}
			}
			if rcx.Record {
				sc.Calls = append(sc.Calls, cc)
			}
		}
	}
	res.LogHash = fmt.Sprintf("%016x", core.HashString(strings.Join(hashParts, "|")))
	res.ShapeKey = fmt.Sprintf("%s|t%d|n%d", sc.Mode, ntab, total)
	if rcx.Record {
		res.Scenario = sc
	}
	switch {
	case pv != nil:
		res.Class, res.Detail = "machinery:harness-panic", fmt.Sprint(pv)
	case sim != nil && sim.End == core.EndMachinery:
		res.Class, res.Detail = "machinery:scheduler", sim.MachineryError()
	case freePanic != nil:
		res.Class, res.Detail = violation("panic"), fmt.Sprintf("%v (sequential caller)", freePanic)
	case sim != nil && len(sim.Panics) > 0:
		res.Class, res.Detail = violation("panic"), fmt.Sprintf("%s in task %s at %s", sim.Panics[0].Value, sim.Panics[0].Task, sim.Panics[0].Site)
	case sim != nil && sim.End != core.EndQuiescent:
		res.Class, res.Detail = violation("callers-did-not-finish"), "scheduler ended with "+sim.End
	case bad != "":
		res.Class, res.Detail = violation(class), bad
	}
	return res
}

// c07Proportion is the proportionality batch: one table, many draws, exact binomial test per cell.
func c07Proportion(t *testing.T, tape *core.Tape, rcx *RunCtx, res *core.Result) *core.Result {
	sc := &c07Scenario{Mode: "proportionality batch"}
	x := c07DrawTable(tape)
	for tries := 0; len(x.usable) == 0 && tries < 10; tries++ {
		x = c07DrawTable(tape)
	}
	sc.Table = x.desc
	if len(x.usable) == 0 {
		res.LogHash = "no-usable-letter"
		return res
	}
	// protein over a drawn subset of the usable letters, cycled
	nl := len(x.usable)
	if tape.Chance(70) {
		nl = 1 + tape.Draw(min(nl, 4)) // few letters: many draws per cell, small distortions become visible
	}
	perm := append([]string{}, x.usable...)
	for i := len(perm) - 1; i > 0; i-- {
		j := tape.Draw(i + 1)
		perm[i], perm[j] = perm[j], perm[i]
	}
	letters := perm[:nl]
	L := 2000
	pb := make([]byte, L)
	for i := range pb {
		pb[i] = letters[i%nl][0]
	}
	protein := string(pb)
	calls := 50
	if rcx.Tier == "thorough" || tape.Chance(6) {
		calls = 500 // 10^6 draws: the depth at which a distortion of a fraction of a percentage point shows
	}
	// generator-fed variant: before every Optimize the caller asks the library's random
	// protein generator for the same protein again (same length, same seed). That call
	// re-seeds the process-wide source with a constant, so the codon draws are only
	// independent if Optimize really re-seeds from the (advancing) clock every time.
	genFed := tape.Chance(35)
	genLen, genSeed := 0, int64(0)
	if genFed {
		found := false
		for try := 0; try < 60 && !found; try++ {
			genLen = 8 + tape.Draw(24)
			genSeed = int64(tape.Draw(1 << 30))
			out, err := random.ProteinSequence(genLen, genSeed)
			if err != nil {
				continue
			}
			ok := true
			for _, r := range out {
				if x.sum[string(r)] <= 0 {
					ok = false
				}
			}
			if ok {
				found = true
				protein = out
				L = len(out)
			}
		}
		if !found {
			genFed = false
		} else {
			calls *= 25 // short proteins: keep the number of draws per cell comparable
			letters = nil
			seenL := map[string]bool{}
			for _, r := range protein {
				if !seenL[string(r)] {
					seenL[string(r)] = true
					letters = append(letters, string(r))
				}
			}
			sort.Strings(letters)
			sc.Mode = fmt.Sprintf("proportionality batch fed by random.ProteinSequence(%d, %d) before every call", genLen, genSeed)
			res.Count("probe_generator_fed_proportionality_batch", 1)
		}
	}
	counts := map[string]map[string]int{}
	for _, l := range letters {
		counts[l] = map[string]int{}
	}
	for _, r := range protein {
		if counts[string(r)] == nil {
			counts[string(r)] = map[string]int{}
		}
	}
	var firstBad string
	var freePanic interface{}
	var simTime time.Duration
	h := uint64(1469598103934665603)
	_, pv := core.Bubble(t, func() {
		defer func() { freePanic = recover() }()
		// the first step is drawn too: every bubble starts at the same instant
		time.Sleep(time.Duration(1+tape.Draw(1<<30)) * time.Duration(1+tape.Draw(1000)))
		for c := 0; c < calls; c++ {
			d := time.Duration(1+tape.Draw(1<<20)) * time.Duration(1+tape.Draw(50000)) // never a stall: draws must come from distinct seeds
			time.Sleep(d)
			simTime += d
			if genFed {
				again, gerr := random.ProteinSequence(genLen, genSeed)
				if gerr != nil || again != protein {
					continue // not C07's subject; only identical requests are tallied
				}
			}
			dna, err := codon.Optimize(protein, *x.tp)
			if d := c07CheckDNA(x, protein, dna, err); d != "" && firstBad == "" {
				firstBad = d
				return
			}
			for i := 0; i < L; i++ {
				counts[string(protein[i])][dna[3*i:3*i+3]]++
			}
			h = (h ^ core.HashString(dna)) * 1099511628211
		}
	})
	res.SimTimeNs = int64(simTime)
	sc.Draws = calls * L
	res.Count("codon_draws", int64(calls*L))
	res.Count("proportionality_batches", 1)
	res.Nontrivial = true
	res.LogHash = fmt.Sprintf("%016x", h)
	res.ShapeKey = "prop|" + x.desc + "|" + strings.Join(letters, "")
	worstP := 1.0
	worst := ""
	cells := 0
	if firstBad == "" && freePanic == nil {
		var ls []string
		for l := range counts {
			ls = append(ls, l)
		}
		sort.Strings(ls)
		for _, l := range ls {
			n := 0
			for _, k := range counts[l] {
				n += k
			}
			if n < 1000 {
				continue
			}
			es := x.eligibleSum(l)
			var ts []string
			for tr := range x.w[l] {
				ts = append(ts, tr)
			}
			sort.Strings(ts)
			for _, tr := range ts {
				if !x.eligible(l, tr) {
					continue // never emitted: enforced call by call above
				}
				p := float64(x.w[l][tr]) / float64(es)
				k := counts[l][tr]
				pv := binomTwoSided(k, n, p)
				cells++
				if pv < worstP {
					worstP = pv
					worst = fmt.Sprintf("%s/%s: chosen %d of %d times, weight %d of %d eligible (expected share %.4f, observed %.4f), exact two-sided binomial tail %.3g", l, tr, k, n, x.w[l][tr], es, p, float64(k)/float64(n), pv)
				}
			}
		}
	}
	// joint goodness of fit over all tested amino acids (Pearson chi-square): many cells
	// each off by a little are invisible cell by cell but not together
	chi, df := 0.0, 0
	if firstBad == "" && freePanic == nil {
		var ls []string
		for l := range counts {
			ls = append(ls, l)
		}
		sort.Strings(ls)
		for _, l := range ls {
			n := 0
			for _, k := range counts[l] {
				n += k
			}
			if n < 1000 {
				continue
			}
			es := x.eligibleSum(l)
			ne := 0
			var ts []string
			for tr := range x.w[l] {
				ts = append(ts, tr)
			}
			sort.Strings(ts)
			for _, tr := range ts {
				if !x.eligible(l, tr) {
					continue
				}
				exp := float64(n) * float64(x.w[l][tr]) / float64(es)
				d := float64(counts[l][tr]) - exp
				chi += d * d / exp
				ne++
			}
			if ne > 1 {
				df += ne - 1
			}
		}
	}
	chiP := 1.0
	if df > 0 {
		chiP = chi2sf(chi, df)
	}
	if df > 0 && chiP < 1e-15 && worstP >= 1e-12 {
		worstP = 0
		worst = fmt.Sprintf("all tested cells together: Pearson chi-square %.1f with %d degrees of freedom, tail %.3g (least likely single cell: %s)", chi, df, chiP, worst)
	}
	sc.Cells, sc.Worst = cells, worst
	res.Count("proportionality_cells_tested", int64(cells))
	if rcx.Record {
		res.Scenario = sc
	}
	switch {
	case pv != nil:
		res.Class, res.Detail = "machinery:harness-panic", fmt.Sprint(pv)
	case freePanic != nil:
		res.Class, res.Detail = violation("panic"), fmt.Sprint(freePanic)
	case firstBad != "":
		res.Class, res.Detail = violation("wrong-dna"), fmt.Sprintf("Optimize on %s: %s", x.desc, firstBad)
	case worstP < 1e-12:
		res.Class, res.Detail = violation("codon-not-chosen-in-proportion-to-weight"), fmt.Sprintf("%s: %s", x.desc, worst)
	}
	return res
}
