package props

import (
	"fmt"
	"sort"
	"strings"
	"testing"

	"github.com/TimothyStiles/poly/clone"

	"verifharness/core"
)

// C09 — GoldenGate returns exactly the plasmids the overhangs allow.
//
// Designed assemblies whose expected product set is known by construction
// (and cross-checked by an independent simple-cycle enumeration), executed
// against the real clone package under seeded goroutine schedules.

type c09 struct{}

func init() { register(c09{}) }

func (c09) ID() string { return "C09" }

const c09SchedulesPerScenario = 24

func (c09) Runs(tier string) int {
	if tier == "thorough" {
		return 3000000
	}
	return 24000
}

func (c09) Components() ([]string, []string) {
	return []string{"clone.GoldenGate", "clone.CircularLigate", "clone.CutWithEnzyme(ByName)", "clone.recurseLigate goroutines + unbuffered channel + sync.WaitGroup", "clone.getConstructs collector", "seqhash.Hash", "transform.ReverseComplement", "checks.IsPalindromic"},
		[]string{"goroutine scheduler (seeded; real goroutines parked at inserted yields)", "expected product set (by construction + independent cycle enumeration)", "canonicalisation (brute-force least rotation over both strands)"}
}

func (c09) Rule() string {
	return "one run = one designed assembly (enzyme, 1..6 junction overhangs, 1..3 alternatives per slot, carriers linear/circular at a drawn rotation, drawn orientation, decoys, optional second ring; entry GoldenGate or CircularLigate) under one seeded schedule and one drawn input order; each scenario is executed under 24 different schedule seeds. A run is non-trivial when >= 2 tasks were schedulable at some decision; distinct = distinct (scenario shape, event-log hash) pairs."
}

type c09Enzyme struct {
	Name, Site string
	Skip       int
}

var c09Enzymes = []c09Enzyme{{"BsaI", "GGTCTC", 1}, {"BbsI", "GAAGAC", 2}, {"BtgZI", "GCGATG", 10}}

type c09Frag struct {
	F, S, R string
	Role    string // ring slot / decoy kind
}

type c09Part struct {
	Seq      string `json:"seq"`
	Circular bool   `json:"circular"`
	Desc     string `json:"desc"`
}

type c09Scenario struct {
	Enzyme       string          `json:"enzyme"`
	Entry        string          `json:"entry"`
	Junctions    []string        `json:"junction_overhangs"`
	Alts         []int           `json:"alternatives_per_slot"`
	Ring2        []string        `json:"second_ring_overhangs,omitempty"`
	Decoys       []string        `json:"decoys,omitempty"`
	Parts        []c09Part       `json:"parts,omitempty"`
	Frags        []c09Frag       `json:"fragments"`
	Order        []int           `json:"input_order"`
	Expected     []string        `json:"expected_rings_canonical"`
	Observed     []string        `json:"observed_rings_canonical,omitempty"`
	Partial      int             `json:"junction_simple_partial_assemblies"`
	SecondCaller string          `json:"second_concurrent_caller,omitempty"`
	Budget       int             `json:"step_budget"`
	Work         int             `json:"letters_in_all_partial_assemblies"`
	TaskCap      int             `json:"goroutine_cap"`
	End          string          `json:"scheduler_end,omitempty"`
	Panics       []core.PanicRec `json:"panics,omitempty"`
}

func isPal(s string) bool { return rc(s) == s }

func c09FreshOverhang(t *core.Tape, used map[string]bool, allowPal bool) string {
	// draw a 4-mer, then probe linearly to the next admissible one: terminates for
	// every tape (an exhausted replay tape draws zeros only)
	idx := t.Draw(256)
	for n := 0; n < 256; n++ {
		k := (idx + n) % 256
		o := string([]byte{"ACGT"[k>>6&3], "ACGT"[k>>4&3], "ACGT"[k>>2&3], "ACGT"[k&3]})
		if used[o] || used[rc(o)] {
			continue
		}
		if isPal(o) && !allowPal {
			continue
		}
		used[o] = true
		used[rc(o)] = true
		return o
	}
	panic("harness: no admissible overhang left")
}

// c09Interior draws an interior such that forward+interior+reverse contains no
// recognition site of the enzyme on either strand.
func c09Interior(t *core.Tape, e c09Enzyme, f, r string, maxLen int) string {
	clean := func(s string) bool {
		w := f + s + r
		return !strings.Contains(w, e.Site) && !strings.Contains(w, rc(e.Site))
	}
	for try := 0; try < 60; try++ {
		lo := 0
		if try > 3 {
			lo = 1
		}
		var s string
		if try == 0 && t.Draw(8) == 7 {
			s = randDNAIUPAC(t, t.Range(1, maxLen)) // degenerate bases: NNK libraries, N barcodes
		} else {
			s = randDNA(t, t.Range(lo, maxLen))
		}
		if clean(s) {
			return s
		}
	}
	// deterministic fallback (an exhausted replay tape draws zeros only)
	for _, s := range []string{"A", "C", "G", "T", "AC", "CA", "GT", "TG", "ACGT"} {
		if clean(s) {
			return s
		}
	}
	panic("harness: no site-free interior found")
}

// c09Carrier wraps fragments into a part the enzyme will cut them out of.
func c09Carrier(t *core.Tape, e c09Enzyme, frags []c09Frag) (c09Part, bool) {
	for try := 0; try < 200; try++ {
		var b strings.Builder
		desc := ""
		for i, f := range frags {
			if i > 0 {
				b.WriteString(randDNA(t, t.Range(0, 8)))
			}
			b.WriteString(e.Site + randDNA(t, e.Skip) + f.F + f.S + f.R + randDNA(t, e.Skip) + rc(e.Site))
			desc += f.Role + " "
		}
		core_ := b.String()
		circular := t.Chance(40)
		var seq string
		if circular {
			seq = core_ + randDNA(t, t.Range(0, 24))
		} else {
			seq = randDNA(t, t.Range(0, 14)) + core_ + randDNA(t, t.Range(0, 14))
		}
		nf, nr := 0, 0
		if circular {
			nf, nr = countCircular(seq, e.Site), countCircular(seq, rc(e.Site))
		} else {
			nf, nr = countOverlapping(seq, e.Site), countOverlapping(seq, rc(e.Site))
		}
		if nf != len(frags) || nr != len(frags) {
			continue
		}
		rot := 0
		if circular {
			rot = t.Draw(len(seq))
			seq = seq[rot:] + seq[:rot]
			desc += fmt.Sprintf("circular rot=%d ", rot)
		} else {
			desc += "linear "
		}
		if t.Chance(50) {
			seq = rc(seq)
			desc += "flipped "
		}
		switch t.Weighted(85, 9, 6) {
		case 1:
			seq = strings.ToLower(seq)
			desc += "lowercase "
		case 2:
			b := []byte(seq)
			for i := range b {
				if t.Draw(2) == 1 {
					b[i] |= 0x20
				}
			}
			seq = string(b)
			desc += "mixedcase "
		}
		return c09Part{Seq: seq, Circular: circular, Desc: strings.TrimSpace(desc)}, true
	}
	return c09Part{}, false
}

// c09Enumerate independently enumerates (a) the canonical rings that are
// simple cycles of the oriented fragment graph and (b) the number of
// junction-simple partial assemblies a seed-and-extend search has to visit
// (a chain never passes through the same junction overhang twice), and (c)
// the summed length, in letters, of all those partial assemblies: the work an
// implementation does that copies, reverse-complements or hashes what it has
// assembled so far.
func c09Enumerate(frags []c09Frag) (rings map[string]bool, partial int, capped bool, work int) {
	type of struct{ F, S, R string }
	var all, flipped []of
	for _, f := range frags {
		all = append(all, of{f.F, f.S, f.R})
		flipped = append(flipped, of{rc(f.R), rc(f.S), rc(f.F)})
	}
	rings = map[string]bool{}
	const capNodes = 100000
	for _, seed := range all {
		partial++
		work += len(seed.F) + len(seed.S)
		if seed.F == seed.R {
			rings[canonCircular(seed.F+seed.S)] = true
			continue
		}
		visited := map[string]bool{}
		var expand func(cur, seq string)
		child := func(g of, cur, seq string) {
			partial++
			work += len(seq) + len(cur) + len(g.S)
			if partial > capNodes {
				capped = true
				return
			}
			if g.R == seed.F {
				rings[canonCircular(seq+cur+g.S)] = true
			} else {
				expand(g.R, seq+cur+g.S)
			}
		}
		expand = func(cur, seq string) {
			if visited[cur] || capped {
				return
			}
			visited[cur] = true
			for _, g := range all {
				if g.F == cur {
					child(g, cur, seq)
				}
			}
			if !isPal(cur) {
				for _, g := range flipped {
					if g.F == cur {
						child(g, cur, seq)
					}
				}
			}
			delete(visited, cur)
		}
		expand(seed.R, seed.F+seed.S)
	}
	return
}

func (c09) Run(t *testing.T, tape *core.Tape, rcx *RunCtx) *core.Result {
	res := &core.Result{}
	scenIdx := rcx.Index / c09SchedulesPerScenario
	tape.Reseed(core.Mix(rcx.VerifSeed, propSalt("C09"), 0x5ce0, uint64(scenIdx)))
	sc := c09Scenario{}
	e := c09Enzymes[tape.Draw(len(c09Enzymes))]
	sc.Enzyme = e.Name
	k := 1 + tape.Weighted(10, 30, 30, 15, 10, 5)
	used := map[string]bool{}
	for i := 0; i < k; i++ {
		sc.Junctions = append(sc.Junctions, c09FreshOverhang(tape, used, false))
	}
	prod := 1
	var ringFrags [][]c09Frag
	// library mode: every slot has 2 or 3 alternatives (many partial assemblies alive at once)
	library := tape.Chance(12)
	// a few libraries go to the upper end of the quantified range (6 junctions x 3
	// alternatives = 729 plasmids); they cost seconds each, so they are rare
	maxProd := 81
	if library && rcx.Tier == "thorough" && tape.Chance(3) {
		// (the collector's linear duplicate scan makes these cost millions of scheduler
		// steps each, so the quick tier stays at 81)
		maxProd = 243
		if tape.Chance(10) {
			maxProd = 729
		}
		res.Count("probe_library_beyond_81_plasmids", 1)
	}
	for i := 0; i < k; i++ {
		a := 1 + tape.Weighted(70, 20, 10)
		if library {
			a = 2 + tape.Draw(2)
			if maxProd > 81 {
				a = 3
			}
		}
		if prod*a > maxProd {
			a = 1
		}
		prod *= a
		sc.Alts = append(sc.Alts, a)
		var alts []c09Frag
		for j := 0; j < a; j++ {
			s := c09Interior(tape, e, sc.Junctions[i], sc.Junctions[(i+1)%k], 24)
			if j > 0 && tape.Chance(10) {
				s = alts[0].S // the same molecule supplied twice
				res.Count("probe_duplicate_fragment", 1)
			}
			alts = append(alts, c09Frag{F: sc.Junctions[i], S: s, R: sc.Junctions[(i+1)%k], Role: fmt.Sprintf("slot%d.alt%d", i, j)})
		}
		ringFrags = append(ringFrags, alts)
	}
	var frags []c09Frag
	for _, a := range ringFrags {
		frags = append(frags, a...)
	}
	expected := map[string]bool{}
	var build func(i int, acc string)
	build = func(i int, acc string) {
		if i == k {
			expected[canonCircular(acc)] = true
			return
		}
		for _, f := range ringFrags[i] {
			build(i+1, acc+f.F+f.S)
		}
	}
	build(0, "")
	if prod > 1 {
		res.Count("probe_library_assembly", 1)
	}
	// optional second, independent ring
	if tape.Chance(15) {
		k2 := 1 + tape.Draw(2)
		var o2 []string
		for i := 0; i < k2; i++ {
			o2 = append(o2, c09FreshOverhang(tape, used, false))
		}
		ring := ""
		for i := 0; i < k2; i++ {
			f := c09Frag{F: o2[i], S: c09Interior(tape, e, o2[i], o2[(i+1)%k2], 16), R: o2[(i+1)%k2], Role: fmt.Sprintf("ring2.slot%d", i)}
			frags = append(frags, f)
			ring += f.F + f.S
		}
		expected[canonCircular(ring)] = true
		sc.Ring2 = o2
		res.Count("probe_second_ring", 1)
	}
	// decoys
	nd := tape.Weighted(45, 30, 15, 10)
	for i := 0; i < nd; i++ {
		kind := tape.Draw(4)
		j := sc.Junctions[tape.Draw(k)]
		allowPal := tape.Chance(10)
		switch kind {
		case 0:
			f := c09Frag{F: j, R: c09FreshOverhang(tape, used, allowPal), Role: "decoy.downstream-dead-end"}
			f.S = c09Interior(tape, e, f.F, f.R, 16)
			frags = append(frags, f)
			sc.Decoys = append(sc.Decoys, f.Role+" "+f.F+">"+f.R)
			res.Count("probe_decoy_downstream", 1)
		case 1:
			f := c09Frag{F: c09FreshOverhang(tape, used, allowPal), R: c09FreshOverhang(tape, used, false), Role: "decoy.isolated"}
			f.S = c09Interior(tape, e, f.F, f.R, 16)
			frags = append(frags, f)
			sc.Decoys = append(sc.Decoys, f.Role+" "+f.F+">"+f.R)
			res.Count("probe_decoy_isolated", 1)
		default:
			// upstream dead end: its reverse overhang enters the ring, nothing matches its
			// forward overhang, so every cycle it can reach excludes it (termination clause)
			f := c09Frag{F: c09FreshOverhang(tape, used, allowPal), R: j, Role: "decoy.upstream-dead-end"}
			f.S = c09Interior(tape, e, f.F, f.R, 16)
			frags = append(frags, f)
			sc.Decoys = append(sc.Decoys, f.Role+" "+f.F+">"+f.R)
			res.Count("probe_decoy_upstream_cycle_excludes_seed", 1)
		}
	}
	// free-pool mode: extra fragments that cross-link existing junctions. The product set
	// is then no longer known by construction; the independent cycle enumeration is the oracle.
	freePool := tape.Chance(10)
	if freePool {
		pool := append(append([]string{}, sc.Junctions...), sc.Ring2...)
		n := 1 + tape.Draw(3)
		for i := 0; i < n; i++ {
			f := c09Frag{F: pool[tape.Draw(len(pool))], R: pool[tape.Draw(len(pool))], Role: "crosslink"}
			f.S = c09Interior(tape, e, f.F, f.R, 12)
			frags = append(frags, f)
			sc.Decoys = append(sc.Decoys, f.Role+" "+f.F+">"+f.R)
		}
		res.Count("probe_free_pool_with_crosslinks", 1)
	}
	// supply orientation for the direct entry; carriers for GoldenGate
	direct := tape.Chance(25)
	var parts []c09Part
	var given, supplied []c09Frag
	if direct {
		sc.Entry = "CircularLigate"
		for _, f := range frags {
			if tape.Chance(50) {
				given = append(given, c09Frag{F: rc(f.R), S: rc(f.S), R: rc(f.F), Role: f.Role + " flipped"})
				res.Count("probe_flipped_fragment", 1)
			} else {
				given = append(given, f)
			}
		}
	} else {
		sc.Entry = "GoldenGate"
		i := 0
		var partFrags [][]c09Frag
		for i < len(frags) {
			n := 1
			if i+1 < len(frags) && tape.Chance(10) {
				n = 2
				res.Count("probe_two_fragments_in_one_part", 1)
			}
			p, ok := c09Carrier(tape, e, frags[i:i+n])
			if !ok {
				res.Class = "machinery:c09-carrier-generation"
				return res
			}
			if p.Circular {
				res.Count("probe_circular_carrier", 1)
			}
			if strings.Contains(p.Desc, "flipped") {
				res.Count("probe_flipped_fragment", 1)
			}
			parts = append(parts, p)
			// the fragments as the digestion will hand them to the ligation: on the other
			// strand when the carrier was flipped
			var pf []c09Frag
			for _, f := range frags[i : i+n] {
				if strings.Contains(p.Desc, "flipped") {
					f = c09Frag{F: rc(f.R), S: rc(f.S), R: rc(f.F), Role: f.Role}
				}
				pf = append(pf, f)
			}
			partFrags = append(partFrags, pf)
			i += n
		}
		given = frags
		if len(parts) > 0 && tape.Chance(6) {
			// the very same part supplied twice
			k := tape.Draw(len(parts))
			parts = append(parts, parts[k])
			partFrags = append(partFrags, partFrags[k])
			res.Count("probe_same_part_supplied_twice", 1)
		}
		for _, pf := range partFrags {
			supplied = append(supplied, pf...)
		}
	}
	if direct {
		supplied = given
	}
	sc.Frags = given
	sc.Parts = parts
	// Independent enumeration: cross-check of the design, and the size of the search. The
	// size is taken over the fragments in the orientation in which they are supplied: a
	// seed on the other strand walks the pool in mirror image, and a palindromic overhang
	// (a decoy may have one) lets a mirror walk turn round and run through the whole ring
	// again, so the same pool can need thirty times more partial assemblies flipped than
	// as designed (found by the thorough tier, DESIGN 6.2).
	enum, partial, capped, work := c09Enumerate(supplied)
	if capped && !freePool {
		res.Count("pool_too_large_skipped", 1)
		res.LogHash = "skipped"
		return res
	}
	partial += 3 * len(parts) // what else the digestion cuts out of a carrier (backbones) seeds a dead end each
	if freePool {
		if capped {
			// too many partial assemblies to enumerate: not a usable scenario
			res.Count("free_pool_too_large_skipped", 1)
			res.LogHash = "skipped"
			return res
		}
		expected = enum
	} else if !capped {
		if len(enum) != len(expected) {
			res.Class = "machinery:c09-design-vs-enumeration"
			res.Detail = fmt.Sprintf("design %d rings, enumeration %d", len(expected), len(enum))
			return res
		}
		for r := range enum {
			if !expected[r] {
				res.Class = "machinery:c09-design-vs-enumeration"
				return res
			}
		}
	}
	sc.Partial = partial
	nin := len(given)
	if !direct {
		nin = len(parts)
	}
	// Termination is judged against the size of the search, not against one way of
	// organising it: 50 steps per partial assembly and pool fragment, plus 100 steps per
	// letter of every partial assembly (an implementation may copy, reverse-complement
	// and hash what it has assembled so far at every step, and at statement granularity
	// Booth's least-rotation algorithm alone takes a few dozen steps per letter).
	sc.Work = work
	sc.Budget = 50*partial*(len(given)+10) + 2000 + 100*work
	sc.TaskCap = 10*partial + 50
	for r := range expected {
		sc.Expected = append(sc.Expected, r)
	}
	sort.Strings(sc.Expected)

	// ---- schedule phase ----
	tape.Reseed(core.Mix(rcx.VerifSeed, propSalt("C09"), 0x5c4ed, uint64(rcx.Index)))
	order := make([]int, nin)
	for i := range order {
		order[i] = i
	}
	for i := nin - 1; i > 0; i-- {
		j := tape.Draw(i + 1)
		order[i], order[j] = order[j], order[i]
	}
	sc.Order = order

	var out []clone.Part
	var callErr error
	var sim *core.Sim
	// a second, unrelated reaction run by another caller at the same time (12 % of the
	// runs): two or three fragments that close exactly one ring. Two ligations in one
	// process share whatever the packages keep at package level (buffers, memos, pools).
	var fragsB []clone.Fragment
	var outB []clone.Part
	wantB := ""
	if tape.Chance(12) {
		ovB := []string{"AAGC", "TTCA", "GGTA"}
		nB := 2 + tape.Draw(2)
		ring := ""
		for i := 0; i < nB; i++ {
			f := clone.Fragment{Sequence: randDNA(tape, 15+tape.Draw(120)), ForwardOverhang: ovB[i], ReverseOverhang: ovB[(i+1)%nB]}
			ring += f.ForwardOverhang + f.Sequence
			if tape.Chance(40) {
				// supplied on the other strand
				f = clone.Fragment{Sequence: rc(f.Sequence), ForwardOverhang: rc(f.ReverseOverhang), ReverseOverhang: rc(f.ForwardOverhang)}
			}
			fragsB = append(fragsB, f)
		}
		wantB = canonCircular(ring)
		sc.SecondCaller = fmt.Sprintf("CircularLigate of %d fragments closing one ring of %d letters", nB, len(ring))
		sc.Budget += 50*20*(nB+10) + 100*20*len(ring)
		sc.TaskCap += 250
		res.Count("probe_second_ligation_at_the_same_time", 1)
	}
	leak, pv := core.Bubble(t, func() {
		sim = core.NewSim(tape)
		sim.Record = rcx.Record
		sim.TimeJitter = true
		sim.MaxSteps = sc.Budget
		sim.MaxTasks = sc.TaskCap
		if wantB != "" {
			sim.Go(func() { outB = clone.CircularLigate(fragsB) })
		}
		sim.Go(func() {
			if direct {
				in := make([]clone.Fragment, 0, nin)
				for _, i := range order {
					in = append(in, clone.Fragment{Sequence: given[i].S, ForwardOverhang: given[i].F, ReverseOverhang: given[i].R})
				}
				out = clone.CircularLigate(in)
			} else {
				in := make([]clone.Part, 0, nin)
				for _, i := range order {
					in = append(in, clone.Part{Sequence: parts[i].Seq, Circular: parts[i].Circular})
				}
				out, callErr = clone.GoldenGate(in, e.Name)
			}
		})
		sim.Run()
	})
	res.Steps = sim.Steps
	res.LogHash = sim.LogHash()
	res.Strategy = sim.Strategy
	res.Trace = sim.Trace
	res.Nontrivial = sim.Multi > 0
	res.ShapeKey = fmt.Sprintf("%s|%s|k%d|%v|d%d|n%d", sc.Enzyme, sc.Entry, k, sc.Alts, nd, nin)
	res.Count("decisions_with_choice", int64(sim.Multi))
	res.Count("yields_passed_by_a_lone_runnable_task", int64(sim.Skipped))
	res.Count("fault_timer_wins_race_time_passes_while_runnable", int64(sim.Jitters))
	res.Count("tasks_created", int64(sim.TasksCreated()))
	sc.End = sim.End
	sc.Panics = sim.Panics
	obs := map[string]int{}
	for _, p := range out {
		c := canonCircular(p.Sequence)
		obs[c]++
		sc.Observed = append(sc.Observed, c)
	}
	sort.Strings(sc.Observed)
	if rcx.Record {
		res.Scenario = sc
	}
	switch {
	case pv != nil:
		res.Class, res.Detail = "machinery:harness-panic", fmt.Sprint(pv)
	case sim.End == core.EndMachinery:
		res.Class, res.Detail = "machinery:scheduler", sim.MachineryError()
	case len(sim.Panics) > 0:
		res.Class, res.Detail = violation("panic"), fmt.Sprintf("%s in task %s at %s", sim.Panics[0].Value, sim.Panics[0].Task, sim.Panics[0].Site)
	case sim.End == core.EndBudget || sim.End == core.EndTaskCap:
		res.Class, res.Detail = violation("termination"), fmt.Sprintf("no result after %d scheduler steps / %d goroutines (budget %d, %d junction-simple partial assemblies)", sim.Steps, sim.TasksCreated(), sc.Budget, partial)
	case sim.End == core.EndDeadlock:
		res.Class, res.Detail = violation("deadlock"), "every goroutine is blocked and the call has not returned"
	case leak && !rcx.Isolated:
		res.Class, res.Detail = violation("goroutine-left-blocked"), "the call returned but a goroutine it started is blocked forever (lost send or unanswered collector)"
	case callErr != nil:
		res.Class, res.Detail = violation("unexpected-error"), callErr.Error()
	default:
		for _, p := range out {
			if !p.Circular {
				res.Class, res.Detail = violation("non-circular-construct"), p.Sequence
			}
		}
		if res.Class == "" {
			var missing, spurious, dup []string
			for r := range expected {
				if obs[r] == 0 {
					missing = append(missing, r)
				}
			}
			for r, n := range obs {
				if !expected[r] {
					spurious = append(spurious, r)
				} else if n > 1 {
					dup = append(dup, r)
				}
			}
			sort.Strings(missing)
			sort.Strings(spurious)
			sort.Strings(dup)
			switch {
			case len(spurious) > 0:
				res.Class, res.Detail = violation("spurious-ring"), fmt.Sprintf("%d spurious, e.g. %s", len(spurious), spurious[0])
			case len(dup) > 0:
				res.Class, res.Detail = violation("duplicate-ring"), fmt.Sprintf("%d rings returned more than once, e.g. %s", len(dup), dup[0])
			case len(missing) > 0:
				res.Class, res.Detail = violation("missing-ring"), fmt.Sprintf("%d of %d expected rings missing, e.g. %s", len(missing), len(expected), missing[0])
			}
		}
	}
	if res.Class == "" && wantB != "" {
		if len(outB) != 1 || canonCircular(outB[0].Sequence) != wantB {
			got := []string{}
			for _, p := range outB {
				got = append(got, canonCircular(p.Sequence))
			}
			res.Class, res.Detail = violation("concurrent-ligation-interference"), fmt.Sprintf("a second reaction ligated at the same time (one ring expected: %s) returned %d constructs: %v", wantB, len(outB), got)
		}
	}
	if rcx.Record {
		res.Scenario = sc
	}
	return res
}
