package props

import (
	"bytes"
	"compress/gzip"
	"encoding/xml"
	"fmt"
	"io"
	"os"
	"path/filepath"
	"strings"
	"testing"
	"time"

	"github.com/TimothyStiles/poly/io/uniprot"

	"verifharness/core"
)

// C20 — Uniprot streaming delivers every entry once, in order, and terminates.

type c20 struct{}

func init() { register(c20{}) }

func (c20) ID() string { return "C20" }

const (
	c20SweepSlot = 700 // every offset 0..699 of each small sweep document is one run
	c20SweepDocs = 8   // quick tier: 4 plain + 4 gzip documents
)

func c20SweepRuns(tier string) int {
	if tier == "thorough" {
		return 64 * c20SweepSlot
	}
	return c20SweepDocs * c20SweepSlot
}

func (c20) Runs(tier string) int {
	if tier == "thorough" {
		return c20SweepRuns(tier) + 1200000
	}
	return c20SweepRuns(tier) + 14000
}

func (c20) Components() ([]string, []string) {
	return []string{"uniprot.Parse (token loop, entry decoding, EOF detection, error forwarding, channel closing)", "uniprot.Read on run-private gzip files (real OS)", "uniprot Entry/SequenceType/xsdDate unmarshalling (xml.go)", "encoding/xml", "compress/gzip"},
		[]string{"SimReader (chunking, truncation, flipped/deleted/inserted byte, sticky read error)", "entry and error channels and their consumers (goroutines of the harness blocking in real receives, sequential or concurrent; when they receive is a scheduling decision)", "goroutine scheduler", "reference pass (plain xml.Decoder + three-field struct over the same damaged bytes)", "abstract entry list"}
}

func (c20) Rule() string {
	return "one run = one generated Uniprot document (0..200 entries; accessions, names with entity escapes, sequence text, optional nested children and XML comments), plain or gzip, with one fault plan (none / truncation at an offset / byte flip, delete or insert / sticky read error), served by SimReader under a drawn chunking policy to uniprot.Parse (or uniprot.Read on a file) with entry and error channels of drawn capacity 0..100 and a sequential or concurrent consumer interleaved by the seeded scheduler. The first runs of every tier are a systematic sweep: every truncation offset of small documents (<= 3 entries), plain and compressed. Non-trivial: a fault fired or >= 2 candidates at some decision; distinct = distinct (shape, fault, event-log hash)."
}

type c20Entry struct {
	Accessions []string `json:"accessions"`
	Names      []string `json:"names"`
	Seq        string   `json:"sequence"`
}

type c20Ref struct {
	Accession []string `xml:"http://uniprot.org/uniprot accession"`
	Name      []string `xml:"http://uniprot.org/uniprot name"`
	Sequence  string   `xml:"http://uniprot.org/uniprot sequence"`
}

type c20Scenario struct {
	Entries     int             `json:"entries"`
	First       []c20Entry      `json:"first_entries"`
	PlainBytes  int             `json:"plain_bytes"`
	Gzip        bool            `json:"gzip"`
	GzipMembers int             `json:"gzip_members,omitempty"`
	PayloadLen  int             `json:"payload_bytes"`
	Fault       string          `json:"fault"`
	FaultAt     int             `json:"fault_offset"`
	Sweep       string          `json:"sweep,omitempty"`
	Entry       string          `json:"entry_point"`
	CapEntries  int             `json:"entry_channel_capacity"`
	CapErrors   int             `json:"error_channel_capacity"`
	Consumer    string          `json:"consumer"`
	Reader      string          `json:"reader_policy"`
	RefClass    string          `json:"reference_class"`
	RefEntries  int             `json:"reference_entries_completed"`
	RefErr      string          `json:"reference_error,omitempty"`
	BeforeDmg   int             `json:"entries_complete_before_damage"`
	GotEntries  int             `json:"received_entries"`
	GotErrors   int             `json:"received_errors"`
	ClosedE     bool            `json:"entries_closed"`
	ClosedX     bool            `json:"errors_closed"`
	End         string          `json:"scheduler_end"`
	DocHead     string          `json:"document_head,omitempty"`
	Errors      []string        `json:"received_error_texts,omitempty"`
	DamageCtx   string          `json:"plaintext_around_first_damaged_byte,omitempty"`
	Panics      []core.PanicRec `json:"panics,omitempty"`
}

func c20Esc(t *core.Tape, s string) string {
	var b strings.Builder
	for _, r := range s {
		switch r {
		case '&':
			b.WriteString("&amp;")
		case '<':
			b.WriteString("&lt;")
		case '>':
			b.WriteString("&gt;")
		case '"':
			b.WriteString("&quot;")
		case '\'':
			b.WriteString("&apos;")
		default:
			if r < 128 && r > 32 && t != nil && t.Draw(40) == 39 {
				fmt.Fprintf(&b, "&#x%X;", r)
			} else {
				b.WriteRune(r)
			}
		}
	}
	return b.String()
}

func c20Word(t *core.Tape, alpha string, lo, hi int) string {
	n := t.Range(lo, hi)
	b := make([]byte, n)
	for i := range b {
		b[i] = alpha[t.Draw(len(alpha))]
	}
	return string(b)
}

const c20Upper = "ABCDEFGHIJKLMNOPQRSTUVWXYZ0123456789"
const c20NameAlpha = "ABCDEFGHIJKLMNOPQRSTUVWXYZ0123456789_-&<>'\" .abcxyz"
const c20AA = "ACDEFGHIKLMNPQRSTVWY"

// c20Date draws a valid calendar date (every day of every month, leap days
// included), biased towards month ends.
func c20Date(t *core.Tape) string {
	y := 1986 + t.Draw(40)
	m := 1 + t.Draw(12)
	dim := []int{31, 28, 31, 30, 31, 30, 31, 31, 30, 31, 30, 31}[m-1]
	if m == 2 && (y%4 == 0 && (y%100 != 0 || y%400 == 0)) {
		dim = 29
	}
	d := 1 + t.Draw(dim)
	if t.Draw(4) == 3 {
		d = dim
	}
	return fmt.Sprintf("%04d-%02d-%02d", y, m, d)
}

// c20Doc renders a document; it returns the bytes and the offset just behind each </entry>.
func c20Doc(t *core.Tape, entries []c20Entry, compact bool) ([]byte, []int) {
	var b bytes.Buffer
	var ends []int
	nl := func() {
		if !compact {
			b.WriteString("\n")
		}
	}
	if compact {
		b.WriteString(`<?xml version="1.0"?><uniprot xmlns="http://uniprot.org/uniprot">`)
	} else {
		b.WriteString(`<?xml version="1.0" encoding="UTF-8"?>` + "\n" + `<uniprot xmlns="http://uniprot.org/uniprot" xmlns:xsi="http://www.w3.org/2001/XMLSchema-instance" xsi:schemaLocation="http://uniprot.org/uniprot http://www.uniprot.org/support/docs/uniprot.xsd">` + "\n")
	}
	for _, e := range entries {
		if !compact && t.Draw(10) == 9 {
			b.WriteString("<!-- " + c20Word(t, c20Upper+" <>", 0, 12) + " -->\n")
		}
		fmt.Fprintf(&b, `<entry dataset="%s" created="%s" modified="%s" version="%d">`, []string{"Swiss-Prot", "TrEMBL"}[t.Draw(2)], c20Date(t), c20Date(t), 1+t.Draw(90))
		nl()
		for _, a := range e.Accessions {
			b.WriteString("<accession>" + a + "</accession>")
			nl()
		}
		for _, n := range e.Names {
			if !compact && !strings.Contains(n, "]]>") && t.Draw(16) == 15 {
				b.WriteString("<name><![CDATA[" + n + "]]></name>")
			} else {
				b.WriteString("<name>" + c20Esc(t, n) + "</name>")
			}
			nl()
		}
		if !compact {
			if t.Draw(2) == 1 {
				b.WriteString("<protein><recommendedName><fullName>" + c20Esc(t, c20Word(t, c20NameAlpha, 1, 30)) + "</fullName></recommendedName></protein>\n")
			}
			if t.Draw(2) == 1 {
				// a nested <name> that is NOT the entry's name
				fmt.Fprintf(&b, `<organism><name type="scientific">%s</name><dbReference type="NCBI Taxonomy" id="%d"/></organism>`+"\n", c20Esc(t, c20Word(t, c20NameAlpha, 1, 20)), t.Draw(100000))
			}
			if t.Draw(3) == 2 {
				fmt.Fprintf(&b, `<comment type="function"><text>%s</text></comment>`+"\n", c20Esc(t, c20Word(t, c20NameAlpha, 0, 60)))
			}
			if t.Draw(3) == 2 {
				fmt.Fprintf(&b, `<feature type="chain" id="PRO_%d" description="%s"><location><begin position="1"/><end position="%d"/></location></feature>`+"\n", t.Draw(100000), c20Esc(t, c20Word(t, c20NameAlpha, 0, 20)), 1+t.Draw(500))
			}
		}
		fmt.Fprintf(&b, `<sequence length="%d" mass="%d" checksum="%s" modified="%s" version="1">%s</sequence>`, len(e.Seq), 110*len(e.Seq)+1, c20Word(t, "0123456789ABCDEF", 16, 16), c20Date(t), e.Seq)
		nl()
		b.WriteString("</entry>")
		ends = append(ends, b.Len())
		nl()
	}
	if !compact && t.Draw(2) == 1 {
		b.WriteString("<copyright>\nCopyrighted by the UniProt Consortium\n</copyright>\n")
	}
	b.WriteString("</uniprot>")
	if !compact {
		b.WriteString("\n")
	}
	return b.Bytes(), ends
}

func c20GenEntries(t *core.Tape, k int, small bool) []c20Entry {
	es := make([]c20Entry, k)
	for i := range es {
		na := 1 + t.Weighted(70, 20, 10)
		for j := 0; j < na; j++ {
			es[i].Accessions = append(es[i].Accessions, c20Word(t, c20Upper, 6, 6))
		}
		nn := 1 + t.Weighted(80, 20)
		for j := 0; j < nn; j++ {
			if small {
				es[i].Names = append(es[i].Names, c20Word(t, c20Upper+"_", 1, 8))
			} else {
				es[i].Names = append(es[i].Names, c20Word(t, c20NameAlpha, 1, 16))
			}
		}
		if !small && i > 0 {
			// duplicates are legal: an accession seen before, or the very same entry again
			switch t.Weighted(88, 6, 6) {
			case 1:
				es[i].Accessions[0] = es[i-1].Accessions[0]
			case 2:
				j := t.Draw(i)
				es[i].Accessions = append([]string{}, es[j].Accessions...)
				es[i].Names = append([]string{}, es[j].Names...)
			}
		}
		if small {
			nn, na = 1, 1
			es[i].Accessions = es[i].Accessions[:1]
			es[i].Names = es[i].Names[:1]
			es[i].Seq = c20Word(t, c20AA, 1, 12)
		} else {
			es[i].Seq = c20Word(t, c20AA, 0, []int{20, 200, 2000}[t.Weighted(60, 30, 10)])
		}
	}
	return es
}

// errAfter serves b and then a fixed error (used for the reference pass).
type errAfter struct {
	r   *bytes.Reader
	err error
}

func (e *errAfter) Read(p []byte) (int, error) {
	n, err := e.r.Read(p)
	if err == io.EOF && e.err != nil {
		if n > 0 {
			return n, nil
		}
		return 0, e.err
	}
	return n, err
}

// c20Reference decodes the damaged plaintext stream with a plain xml.Decoder
// and a three-field struct. It returns the entries it completed and the first
// XML-level (or reader) error.
func c20Reference(plain []byte, tailErr error) (done []c20Ref, rerr error) {
	dec := xml.NewDecoder(&errAfter{r: bytes.NewReader(plain), err: tailErr})
	for {
		tok, err := dec.Token()
		if err == io.EOF {
			return done, nil
		}
		if err != nil {
			return done, err
		}
		if se, ok := tok.(xml.StartElement); ok && se.Name.Local == "entry" {
			var e c20Ref
			if err := dec.DecodeElement(&e, &se); err != nil {
				return done, err
			}
			done = append(done, e)
		}
	}
}

func c20Same(e uniprot.Entry, a c20Entry) string {
	if strings.Join(e.Accession, "|") != strings.Join(a.Accessions, "|") {
		return fmt.Sprintf("accessions %q, expected %q", e.Accession, a.Accessions)
	}
	if strings.Join(e.Name, "|") != strings.Join(a.Names, "|") {
		return fmt.Sprintf("names %q, expected %q", e.Name, a.Names)
	}
	if e.Sequence.Value != a.Seq {
		return fmt.Sprintf("sequence text %q, expected %q", clip(e.Sequence.Value), clip(a.Seq))
	}
	return ""
}

func (c20) Run(t *testing.T, tape *core.Tape, rcx *RunCtx) *core.Result {
	res := &core.Result{}
	sc := &c20Scenario{}
	sweep := rcx.Index < c20SweepRuns(rcx.Tier)
	var entries []c20Entry
	var plain []byte
	var ends []int
	fault, faultAt := "none", -1
	if sweep {
		docIdx := rcx.Index / c20SweepSlot
		off := rcx.Index % c20SweepSlot
		// the document depends only on (VERIF_SEED, docIdx): every offset sees the same bytes
		dt := core.NewTape(core.Mix(rcx.VerifSeed, propSalt("C20"), 0xd0c, uint64(docIdx)))
		k := docIdx % 4
		entries = c20GenEntries(dt, k, true)
		plain, ends = c20Doc(dt, entries, true)
		sc.Gzip = (docIdx/4)%2 == 1
		fault, faultAt = "truncation", off
		sc.Sweep = fmt.Sprintf("document %d (k=%d, gzip=%v), truncation offset %d", docIdx, k, sc.Gzip, off)
	} else {
		k := 0
		switch tape.Weighted(5, 45, 35, 15) {
		case 0:
			k = 0
		case 1:
			k = 1 + tape.Draw(3)
		case 2:
			k = 4 + tape.Draw(17)
		default:
			k = 21 + tape.Draw(180)
			if tape.Chance(15) {
				k = 200 - tape.Draw(2) // the upper end of the quantified range
			}
		}
		entries = c20GenEntries(tape, k, false)
		plain, ends = c20Doc(tape, entries, tape.Chance(20))
		sc.Gzip = tape.Chance(40)
		fault = []string{"none", "truncation", "flip", "delete", "insert", "read-error"}[tape.Weighted(30, 25, 12, 6, 7, 20)]
	}
	sc.Entries = len(entries)
	for i := 0; i < len(entries) && i < 3; i++ {
		sc.First = append(sc.First, entries[i])
	}
	sc.PlainBytes = len(plain)
	payload := plain
	if sc.Gzip {
		payload = gz(plain)
		// one compressed document in four is a multi-member gzip stream
		if key := core.Mix(uint64(rcx.Index), 0xc20); !sweep && key%4 == 1 {
			payload = gzMulti(plain, key)
			sc.GzipMembers = 2 + int(core.Mix(key, 1)%3)
			res.Count("probe_multi_member_gzip", 1)
		}
	}
	if !sweep && fault != "none" {
		// bias some offsets towards the tail (the closing tags) and the head
		switch tape.Draw(4) {
		case 0:
			faultAt = len(payload) - 1 - tape.Draw(min(len(payload), 40))
		case 1:
			faultAt = tape.Draw(min(len(payload), 120) + 1)
		default:
			faultAt = tape.Draw(len(payload) + 1)
		}
		if faultAt < 0 {
			faultAt = 0
		}
	}
	if sweep && faultAt >= len(payload) {
		// beyond this document's length: nothing to truncate, plain fault-free run
		fault, faultAt = "none", -1
		res.Count("sweep_offset_beyond_document", 1)
	}
	damaged := append([]byte{}, payload...)
	errAt := -1
	switch fault {
	case "truncation":
		damaged = damaged[:faultAt]
		res.Count("fault_truncation", 1)
	case "flip":
		if faultAt >= len(damaged) {
			faultAt = len(damaged) - 1
		}
		damaged[faultAt] ^= byte(1 << tape.Draw(8))
		res.Count("fault_byte_flip", 1)
	case "delete":
		if faultAt >= len(damaged) {
			faultAt = len(damaged) - 1
		}
		damaged = append(damaged[:faultAt], damaged[faultAt+1:]...)
		res.Count("fault_byte_delete", 1)
	case "insert":
		ins := []byte("<>&/\"x\x00 ")[tape.Draw(8)]
		damaged = append(damaged[:faultAt], append([]byte{ins}, damaged[faultAt:]...)...)
		res.Count("fault_byte_insert", 1)
	case "read-error":
		errAt = faultAt
		res.Count("fault_sticky_read_error", 1)
	}
	sc.Fault, sc.FaultAt, sc.PayloadLen = fault, faultAt, len(damaged)
	h := plain
	if len(h) > 200 {
		h = h[:200]
	}
	sc.DocHead = string(h)

	useRead := !sweep && sc.Gzip && tape.Chance(15)
	if useRead && errAt >= 0 {
		// a file cannot fail mid-stream here: the error becomes a truncation
		if errAt < len(damaged) {
			damaged = damaged[:errAt]
		}
		errAt = -1
		sc.Fault = "truncation (file; drawn as read-error)"
		sc.PayloadLen = len(damaged)
	}
	// A second, intact stream parsed at the same time by another caller ("background
	// traffic"): two streams in one process must not interfere (shared pools, caches).
	dual := !sweep && tape.Chance(12)
	var entriesB []c20Entry
	var payloadB []byte
	var pathB string
	if dual {
		kB := 1 + tape.Draw(3)
		if tape.Chance(30) {
			kB = 90 + tape.Draw(40) // around the 100-slot channels of uniprot.Read
		}
		entriesB = c20GenEntries(tape, kB, false)
		plainB, _ := c20Doc(tape, entriesB, tape.Chance(50))
		payloadB = plainB
		if sc.Gzip {
			payloadB = gz(plainB)
		}
		if useRead {
			pathB = filepath.Join(rcx.TmpDir, fmt.Sprintf("c20-%d-b.xml.gz", rcx.Index))
			os.WriteFile(pathB, payloadB, 0o644)
			defer os.Remove(pathB)
		}
		res.Count("probe_two_streams_parsed_concurrently", 1)
	}
	var gotEB []uniprot.Entry
	var gotXB []error
	closedEB, closedXB, startedB := false, false, true
	var rdB *core.SimReader
	// ---- reference pass over exactly the bytes (and error) the parser will see ----
	var seen []byte // plaintext the parser can see
	var tailErr error
	gzHeaderBad := false
	served := damaged
	if errAt >= 0 && errAt < len(served) {
		served = served[:errAt]
	}
	if errAt >= 0 {
		tailErr = core.ErrInjected
	}
	if sc.Gzip {
		zr, err := gzip.NewReader(&errAfter{r: bytes.NewReader(served), err: tailErr})
		if err != nil {
			gzHeaderBad = true
		} else {
			var buf bytes.Buffer
			_, err := io.Copy(&buf, zr)
			seen = buf.Bytes()
			tailErr = err // nil on clean end, else unexpected EOF / checksum / corrupt / injected
		}
	} else {
		seen = served
	}
	refDone, refErr := c20Reference(seen, tailErr)
	sc.RefEntries = len(refDone)
	firstDiff := 0
	for firstDiff < len(seen) && firstDiff < len(plain) && seen[firstDiff] == plain[firstDiff] {
		firstDiff++
	}
	undamaged := len(seen) == len(plain) && firstDiff == len(plain) && tailErr == nil
	before := 0
	for before < len(ends) && ends[before] <= firstDiff {
		before++
	}
	if undamaged {
		before = len(entries)
	}
	sc.BeforeDmg = before
	switch {
	case refErr != nil:
		sc.RefClass, sc.RefErr = "M", refErr.Error()
	case undamaged:
		sc.RefClass = "W"
	default:
		sc.RefClass = "S"
	}
	if undamaged {
		// the generator and the reference must agree on a fault-free document
		if len(refDone) != len(entries) {
			res.Class, res.Detail = "machinery:c20-generator-vs-reference", fmt.Sprintf("%d generated, reference decoded %d", len(entries), len(refDone))
			return res
		}
		for i, r := range refDone {
			if strings.Join(r.Accession, "|") != strings.Join(entries[i].Accessions, "|") || strings.Join(r.Name, "|") != strings.Join(entries[i].Names, "|") || r.Sequence != entries[i].Seq {
				res.Class, res.Detail = "machinery:c20-generator-vs-reference", fmt.Sprintf("entry %d", i)
				return res
			}
		}
	}

	// ---- system under test ----
	sc.Entry = "Parse"
	sc.CapEntries = []int{0, 1, 2, tape.Draw(101), 100}[tape.Draw(5)]
	sc.CapErrors = []int{0, 1, 2, tape.Draw(101), 100}[tape.Draw(5)]
	sequential := tape.Chance(50)
	sc.Consumer = "concurrent"
	if sequential {
		sc.Consumer = "sequential (entries until closed, then errors)"
	}
	var path string
	if useRead {
		sc.Entry = "Read"
		sc.CapEntries, sc.CapErrors = 100, 100
		path = filepath.Join(rcx.TmpDir, fmt.Sprintf("c20-%d.xml.gz", rcx.Index))
		os.WriteFile(path, served, 0o644)
		defer os.Remove(path)
	}
	var gotE []uniprot.Entry
	var gotX []error
	closedE, closedX := false, false
	stallCount := 0
	var stallTime time.Duration
	recvAfterEnd := 0
	started := true
	var readErr error
	var sim *core.Sim
	var rd *core.SimReader
	leak, pv := core.Bubble(t, func() {
		sim = core.NewSim(tape)
		sim.Record = rcx.Record
		sim.TimeJitter = true
		readReturned := make(chan struct{})                                           // closed when uniprot.Read has handed the channels back
		sim.MaxSteps = 400*len(plain) + 400*len(damaged) + 400*len(payloadB) + 100000 // backstop only; liveness is judged by progress below
		// liveness after the last byte: once the reader has returned EOF or its
		// error, the parser owes at most the remaining entries and its errors;
		// both channels must be closed within a bound linear in the number of
		// entry elements of the stream.
		recvBound := 10 * (bytes.Count(plain, []byte("<entry")) + 10)
		sim.OnQuiesce = func() string {
			// cumulative allowance: 20000 + 60 steps per byte handed over + 50 per Read call
			// + 200 per delivered value (see C13)
			consumed, reads := len(damaged), int64(0)
			if rd != nil {
				consumed, reads = rd.Consumed(), rd.Reads
			}
			if dual {
				// the intact background stream earns its allowance too
				if rdB != nil && !useRead {
					consumed += rdB.Consumed()
					reads += rdB.Reads
				} else {
					consumed += len(payloadB)
				}
			}
			if allowed := 20000 + 60*consumed + 50*int(reads) + 200*(len(gotE)+len(gotX)+len(gotEB)+len(gotXB)) + int(stallTime.Seconds()*10000) + 100*stallCount; sim.Steps > allowed {
				return fmt.Sprintf("%d scheduler steps used, %d allowed for %d bytes handed over in %d reads and %d values delivered", sim.Steps, allowed, consumed, reads, len(gotE)+len(gotX))
			}
			if rd != nil && rd.Finished && recvAfterEnd > recvBound {
				return fmt.Sprintf("the reader ended long ago and %d values were received since (bound %d) but the channels are not closed", recvAfterEnd, recvBound)
			}
			return ""
		}
		var ce chan uniprot.Entry
		var cx chan error
		if !useRead {
			ce = make(chan uniprot.Entry, sc.CapEntries)
			cx = make(chan error, sc.CapErrors)
			var cuts []int
			for i, c := range damaged {
				if (c == '<' || c == '&' || c >= 0x80) && len(cuts) < 64 {
					cuts = append(cuts, i, i+1)
				}
			}
			rd = core.NewSimReader(sim, tape, damaged, cuts, len(damaged) > 20000)
			rd.ErrAt = errAt
			sc.Reader = rd.ModeName()
		}
		sim.Go(func() {
			if useRead {
				var err error
				ce, cx, err = uniprot.Read(path)
				if err != nil {
					readErr = err
					started = false
				}
				close(readReturned)
				return
			}
			var r io.Reader = rd
			if sc.Gzip {
				zr, err := gzip.NewReader(rd)
				if err != nil {
					started = false
					return
				}
				r = zr
			}
			uniprot.Parse(r, ce, cx)
		})
		// consumers are real goroutines blocking in real receives, each receive preceded by
		// a yield: sequential = one goroutine draining entries until closed and then errors
		// (the documented usage); concurrent = one goroutine per channel
		stalls := tape.Chance(30) // the consumers also stall in (fake) time
		recvEntries := func() {
			for {
				sim.Yield("consumer:before-entry-receive")
				if ce == nil || !started {
					return
				}
				if stalls && tape.Draw(5) == 4 {
					d := []time.Duration{time.Millisecond, 50 * time.Millisecond, 300 * time.Millisecond, 2 * time.Second, 5 * time.Second}[tape.Draw(5)]
					time.Sleep(d)
					stallTime += d
					stallCount++
				}
				e, ok := <-ce
				if !ok {
					closedE = true
					return
				}
				gotE = append(gotE, e)
				if rd != nil && rd.Finished {
					recvAfterEnd++
				}
			}
		}
		recvErrors := func() {
			for {
				sim.Yield("consumer:before-error-receive")
				if cx == nil || !started {
					return
				}
				if stalls && tape.Draw(5) == 4 {
					d := []time.Duration{time.Millisecond, 50 * time.Millisecond, 300 * time.Millisecond, 2 * time.Second, 5 * time.Second}[tape.Draw(5)]
					time.Sleep(d)
					stallTime += d
					stallCount++
				}
				e, ok := <-cx
				if !ok {
					closedX = true
					return
				}
				gotX = append(gotX, e)
				if rd != nil && rd.Finished {
					recvAfterEnd++
				}
			}
		}
		waitStarted := func() bool {
			// uniprot.Read hands the channels back to its caller first
			if useRead {
				<-readReturned
			}
			return started
		}
		if sequential {
			sim.GoConsumer(func() {
				if !waitStarted() {
					return
				}
				recvEntries()
				recvErrors()
			})
		} else {
			sim.GoConsumer(func() {
				if waitStarted() {
					recvEntries()
				}
			})
			sim.GoConsumer(func() {
				if waitStarted() {
					recvErrors()
				}
			})
		}
		if dual {
			var ceB chan uniprot.Entry
			var cxB chan error
			readReturnedB := make(chan struct{})
			if !useRead {
				ceB = make(chan uniprot.Entry, sc.CapEntries)
				cxB = make(chan error, sc.CapErrors)
			}
			rdB = core.NewSimReader(sim, tape, payloadB, nil, len(payloadB) > 20000)
			sim.Go(func() {
				if useRead {
					var err error
					ceB, cxB, err = uniprot.Read(pathB)
					if err != nil {
						startedB = false
					}
					close(readReturnedB)
					return
				}
				var r io.Reader = rdB
				if sc.Gzip {
					zr, err := gzip.NewReader(rdB)
					if err != nil {
						startedB = false
						close(readReturnedB)
						return
					}
					r = zr
				}
				close(readReturnedB)
				uniprot.Parse(r, ceB, cxB)
			})
			sim.GoConsumer(func() {
				<-readReturnedB
				if !startedB {
					return
				}
				for {
					sim.Yield("consumer-b:before-entry-receive")
					e, ok := <-ceB
					if !ok {
						closedEB = true
						break
					}
					gotEB = append(gotEB, e)
				}
				for {
					sim.Yield("consumer-b:before-error-receive")
					e, ok := <-cxB
					if !ok {
						closedXB = true
						return
					}
					gotXB = append(gotXB, e)
				}
			})
		}
		sim.Run()
	})
	res.Steps = sim.Steps
	res.LogHash = sim.LogHash()
	res.Strategy = sim.Strategy
	res.Trace = sim.Trace
	if rd != nil {
		res.Count("fault_short_read", rd.ShortReads)
		res.Count("fault_zero_length_read", rd.ZeroReads)
		res.Count("fault_data_with_eof", rd.EOFWithData)
		res.Count("probe_chunk_boundary_at_interesting_offset", rd.CutHits)
		res.Count("probe_injected_error_returned_to_parser", rd.ErrReturned)
		res.Count("fault_data_together_with_error", rd.ErrWithData)
	}
	res.Nontrivial = sim.Multi > 0 || fault != "none"
	res.ShapeKey = fmt.Sprintf("%s|k%d|gz%v|%s@%d|ce%d|cx%d|%s|%s", sc.Entry, len(entries), sc.Gzip, fault, faultAt, sc.CapEntries, sc.CapErrors, sc.Consumer[:3], sc.Reader)
	res.Count("decisions_with_choice", int64(sim.Multi))
	res.Count("yields_passed_by_a_lone_runnable_task", int64(sim.Skipped))
	res.Count("fault_timer_wins_race_time_passes_while_runnable", int64(sim.Jitters))
	res.Count("fault_consumer_stall_in_simulated_time", int64(stallCount))
	res.SimTimeNs = int64(sim.SimTime)
	res.Count("probe_reference_class_"+sc.RefClass, 1)
	if sweep {
		res.Count("sweep_runs", 1)
	}
	if sequential && sc.CapErrors == 0 {
		res.Count("probe_sequential_consumer_unbuffered_errors", 1)
	}
	sc.GotEntries, sc.GotErrors, sc.ClosedE, sc.ClosedX, sc.End, sc.Panics = len(gotE), len(gotX), closedE, closedX, sim.End, sim.Panics
	for i, e := range gotX {
		if i < 3 {
			sc.Errors = append(sc.Errors, e.Error())
		}
	}
	if !undamaged {
		lo, hi := firstDiff-40, firstDiff+40
		if lo < 0 {
			lo = 0
		}
		if hi > len(seen) {
			hi = len(seen)
		}
		if lo < hi {
			sc.DamageCtx = string(seen[lo:hi])
		}
	}
	if rcx.Record {
		res.Scenario = sc
	}
	switch {
	case pv != nil:
		res.Class, res.Detail = "machinery:harness-panic", fmt.Sprint(pv)
		return res
	case sim.End == core.EndMachinery:
		res.Class, res.Detail = "machinery:scheduler", sim.MachineryError()
		return res
	}
	if !started {
		// gzip header rejected before the parser was ever started: nothing to decide
		if !gzHeaderBad && readErr == nil {
			res.Class, res.Detail = "machinery:c20-gzip-header", "harness and reference disagree on the gzip header"
		}
		res.Count("probe_gzip_header_rejected_before_parse", 1)
		return res
	}
	defer func() {
		// the intact background stream must come through untouched
		if !dual || res.Class != "" {
			return
		}
		switch {
		case !startedB:
			res.Class, res.Detail = "machinery:c20-background-stream", "the intact background stream could not be opened"
		case !closedEB || !closedXB:
			res.Class, res.Detail = violation("concurrent-stream-interference"), fmt.Sprintf("an intact stream of %d entries parsed at the same time: entries closed=%v, errors closed=%v after %d entries", len(entriesB), closedEB, closedXB, len(gotEB))
		case len(gotXB) > 0:
			res.Class, res.Detail = violation("concurrent-stream-interference"), fmt.Sprintf("an intact stream of %d entries parsed at the same time reported an error: %v (%d entries delivered)", len(entriesB), gotXB[0], len(gotEB))
		case len(gotEB) != len(entriesB):
			res.Class, res.Detail = violation("concurrent-stream-interference"), fmt.Sprintf("an intact stream of %d entries parsed at the same time delivered %d", len(entriesB), len(gotEB))
		default:
			for i := range entriesB {
				if d := c20Same(gotEB[i], entriesB[i]); d != "" {
					res.Class, res.Detail = violation("concurrent-stream-interference"), fmt.Sprintf("intact stream parsed at the same time, entry %d: %s", i, d)
					return
				}
			}
		}
	}()
	switch {
	case len(sim.Panics) > 0:
		res.Class, res.Detail = violation("panic"), fmt.Sprintf("%s in task %s at %s", sim.Panics[0].Value, sim.Panics[0].Task, sim.Panics[0].Site)
	case sim.End == core.EndBudget || sim.End == core.EndTaskCap || sim.End == core.EndStopped:
		res.Class, res.Detail = violation("termination"), fmt.Sprintf("parser still running after %d scheduler steps on a %d-byte stream (%s at %d): received %d entries and %d errors, entries closed=%v, errors closed=%v", sim.Steps, len(damaged), fault, faultAt, len(gotE), len(gotX), closedE, closedX)
	case sim.End == core.EndDeadlock || !closedE || !closedX:
		res.Class, res.Detail = violation("blocked-or-not-closed"), fmt.Sprintf("nothing can run any more but entries closed=%v, errors closed=%v (%s consumer, capacities %d/%d, %s at %d; received %d entries, %d errors)", closedE, closedX, sc.Consumer[:10], sc.CapEntries, sc.CapErrors, fault, faultAt, len(gotE), len(gotX))
	case leak && !rcx.Isolated:
		res.Class, res.Detail = violation("goroutine-left-blocked"), "a goroutine of the parser is blocked forever although both channels were drained"
	default:
		// delivery: the entries that precede the damage, in order, first
		if len(gotE) < before {
			res.Class, res.Detail = violation("entries-before-damage-lost"), fmt.Sprintf("%d entries precede the damage (%s at %d), only %d delivered", before, fault, faultAt, len(gotE))
			break
		}
		for i := 0; i < before; i++ {
			if d := c20Same(gotE[i], entries[i]); d != "" {
				res.Class, res.Detail = violation("entry-content-or-order"), fmt.Sprintf("entry %d: %s", i, d)
				break
			}
		}
		if res.Class != "" {
			break
		}
		switch sc.RefClass {
		case "W":
			if len(gotE) != len(entries) {
				res.Class, res.Detail = violation("entry-count"), fmt.Sprintf("document has %d entries, %d delivered", len(entries), len(gotE))
			}
		case "S":
			// Content damage that leaves the XML well-formed (a broken date or
			// number, say) may legitimately be reported as an error; the stream
			// then counts as malformed and only the prefix is owed. If nothing
			// was reported, every entry element of the stream is owed.
			if len(gotX) == 0 && len(gotE) != len(refDone) {
				res.Class, res.Detail = violation("entry-count"), fmt.Sprintf("damaged but well-formed stream has %d entries, %d delivered and no error reported", len(refDone), len(gotE))
			}
		case "M":
			if len(gotX) == 0 {
				res.Class, res.Detail = violation("damage-not-reported"), fmt.Sprintf("stream is malformed (%s) but no error was delivered", sc.RefErr)
			}
		}
	}
	return res
}
