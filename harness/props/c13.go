package props

import (
	"bytes"
	"compress/gzip"
	"fmt"
	"io"
	"os"
	"path/filepath"
	"strings"
	"testing"
	"time"

	"github.com/TimothyStiles/poly/io/fasta"

	"verifharness/core"
)

// C13 — FASTA records survive write/read, re-wrapping and streaming unchanged.

type c13 struct{}

func init() { register(c13{}) }

func (c13) ID() string { return "C13" }

func (c13) Runs(tier string) int {
	if tier == "thorough" {
		return 700000
	}
	return 16000
}

func (c13) Components() ([]string, []string) {
	return []string{"fasta.ParseConcurrent (line state machine, sends, close)", "fasta.Parse (internal goroutine + 1000-slot channel)", "fasta.Read/ReadGz/ReadConcurrent/ReadGzConcurrent on run-private files (real OS, fault-free)", "fasta.Build / fasta.Write", "bufio.Scanner", "compress/gzip"},
		[]string{"SimReader (simulated byte source: chunking, zero-length reads, data-with-EOF)", "output channel and its consumer (a goroutine of the harness blocking in real receives; when it receives is a scheduling decision: eager, lazy, bursty, stalled in simulated time)", "goroutine scheduler", "independent FASTA writer (wrapping, blank lines, ';' comments, CRLF, gzip)", "abstract record list (reference model)"}
}

func (c13) Rule() string {
	return "one run = one record list (1..200 records, printable names, sequences 0..300000 letters) rendered either by fasta.Build or by an independent writer (drawn wrap widths, blank lines, ';' comments, LF/CRLF, optional gzip), served by SimReader under a drawn chunking policy to a drawn entry point (ParseConcurrent, Parse, Read*, on channels of capacity 0..1000) with the consumer's receives interleaved by the seeded scheduler. Non-trivial: >= 2 schedulable candidates at some decision or >= 1 reader fault-kind fired; distinct = distinct (shape, event-log hash)."
}

type c13Scenario struct {
	Records  int             `json:"records"`
	Names    []string        `json:"names_first_5"`
	SeqLens  []int           `json:"sequence_lengths_first_20"`
	Writer   string          `json:"writer"`
	Wrap     string          `json:"wrap"`
	LineEnd  string          `json:"line_end"`
	Gzip     bool            `json:"gzip"`
	Blank    int             `json:"blank_lines"`
	Comments int             `json:"comment_lines"`
	Bytes    int             `json:"bytes"`
	Lines    int             `json:"lines"`
	Entry    string          `json:"entry"`
	EntryB   string          `json:"second_concurrent_caller_entry,omitempty"`
	Cap      int             `json:"channel_capacity"`
	Reader   string          `json:"reader_policy"`
	Received int             `json:"received"`
	Closed   bool            `json:"channel_closed"`
	End      string          `json:"scheduler_end"`
	TextHead string          `json:"text_head,omitempty"`
	Panics   []core.PanicRec `json:"panics,omitempty"`
}

const c13NameChars = " !\"#$%&'()*+,-./0123456789:;<=>?@ABCDEFGHIJKLMNOPQRSTUVWXYZ[\\]^_`abcdefghijklmnopqrstuvwxyz{|}~"

var c13Unicode = []string{"é", "ü", "λ", "漢", "Ω"}

func c13Name(t *core.Tape) string {
	n := t.Weighted(5, 30, 40, 20, 5)
	l := []int{0, 1 + t.Draw(4), 5 + t.Draw(12), 17 + t.Draw(30), 60 + t.Draw(100)}[n]
	var b strings.Builder
	for i := 0; i < l; i++ {
		if t.Draw(40) == 39 {
			b.WriteString(c13Unicode[t.Draw(len(c13Unicode))])
		} else {
			b.WriteByte(c13NameChars[t.Draw(len(c13NameChars))])
		}
	}
	return b.String()
}

func c13Seq(t *core.Tape, large bool) string {
	var l int
	if large {
		switch t.Draw(8) {
		case 0, 1, 2:
			// exactly at (and one off) a multiple of the 64 KiB line buffer; with CRLF the
			// carriage return is the byte that lands on the boundary
			l = 65536*(1+t.Draw(4)) + []int{0, 0, 0, -1, -1, 1, -2, 2}[t.Draw(8)]
		case 3:
			l = 65536 + t.Draw(2000)
		case 4:
			l = 4096*(1+t.Draw(16)) + []int{0, -1, 1}[t.Draw(3)]
		case 5:
			l = 300000 - t.Draw(3) // the upper end of the quantified range
		default:
			l = 66000 + t.Draw(300000-66000+1)
		}
	} else {
		switch t.Weighted(5, 55, 30, 10) {
		case 0:
			l = 0
		case 1:
			l = 1 + t.Draw(120)
		case 2:
			l = 100 + t.Draw(2000)
		default:
			l = 4000 + t.Draw(6000) // longer than bufio's initial 4096-byte buffer
		}
	}
	alpha := []string{"ACGT", "ACGTN", "ACDEFGHIKLMNPQRSTVWY", "acgt", "ACGTacgtNn", "ACDEFGHIKLMNPQRSTVWYXBZ*"}[t.Draw(6)]
	b := make([]byte, l)
	// low-complexity sequences (homopolymer runs, tandem repeats) are ordinary biology
	// and compress a thousandfold: whatever sits between the file and the parser must
	// not care
	if lowc := t.Weighted(84, 8, 8); lowc > 0 && l > 0 {
		unit := []byte{alpha[t.Draw(len(alpha))]}
		if lowc == 2 {
			unit = make([]byte, 2+t.Draw(7))
			for i := range unit {
				unit[i] = alpha[t.Draw(len(alpha))]
			}
		}
		for i := range b {
			b[i] = unit[i%len(unit)]
		}
		if b[0] == '*' {
			b[0] = 'M'
		}
		return string(b)
	}
	if l > 20000 {
		// cheap but non-periodic fill for very long sequences: a drawn seed drives an LCG
		x := uint32(t.Draw(1<<30)) | 1
		for i := range b {
			x = x*1664525 + 1013904223
			b[i] = alpha[int(x>>16)%len(alpha)]
		}
	} else {
		for i := range b {
			b[i] = alpha[t.Draw(len(alpha))]
		}
	}
	if len(b) > 0 && b[0] == '*' {
		b[0] = 'M'
	}
	return string(b)
}

// c13Write is the independent writer. It returns the text, the number of
// lines, and offsets at which a chunk boundary is interesting.
func c13Write(t *core.Tape, recs []fasta.Fasta, sc *c13Scenario, large bool) ([]byte, []int) {
	var b bytes.Buffer
	var cuts []int
	crlfMode := t.Weighted(50, 35, 15) // LF, CRLF, mixed
	sc.LineEnd = []string{"LF", "CRLF", "mixed"}[crlfMode]
	wrapMode := t.Weighted(25, 35, 25, 15) // none, fixed, per-record, per-line
	sc.Wrap = []string{"none", "fixed", "per-record", "per-line"}[wrapMode]
	pickWidth := func() int {
		if large {
			return []int{60, 70, 80, 1000, 4096, 65535, 65536, 100000}[t.Draw(8)]
		}
		return []int{1, 2, 3, 10, 60, 70, 80, 4095, 4096, 4097}[t.Draw(10)]
	}
	fixedW := pickWidth()
	junk := !large || t.Draw(2) == 1
	eol := func() {
		crlf := crlfMode == 1 || (crlfMode == 2 && t.Draw(2) == 1)
		if crlf {
			b.WriteByte('\r')
			cuts = append(cuts, b.Len()) // boundary between CR and LF
		}
		b.WriteByte('\n')
		sc.Lines++
	}
	noise := func() {
		if !junk {
			return
		}
		for t.Draw(8) == 7 {
			if t.Draw(2) == 0 {
				eol()
				sc.Blank++
			} else {
				b.WriteString(";" + c13Name(t))
				eol()
				sc.Comments++
			}
		}
	}
	noise()
	for _, r := range recs {
		cuts = append(cuts, b.Len(), b.Len()+1)
		b.WriteString(">" + r.Name)
		eol()
		noise()
		w := fixedW
		if wrapMode == 2 {
			w = pickWidth()
		}
		s := r.Sequence
		for len(s) > 0 {
			n := len(s)
			switch wrapMode {
			case 1, 2:
				n = w
			case 3:
				n = pickWidth()
			}
			if n > len(s) {
				n = len(s)
			}
			b.WriteString(s[:n])
			s = s[n:]
			eol()
			noise()
		}
	}
	// optionally drop the final line end
	out := b.Bytes()
	if t.Draw(4) == 3 && len(out) > 0 {
		if bytes.HasSuffix(out, []byte("\r\n")) {
			out = out[:len(out)-2]
		} else if bytes.HasSuffix(out, []byte("\n")) {
			out = out[:len(out)-1]
		}
	}
	return out, cuts
}

func gz(b []byte) []byte {
	var z bytes.Buffer
	w := gzip.NewWriter(&z)
	w.Write(b)
	w.Close()
	return z.Bytes()
}

// gzMulti renders b as a gzip stream of several members (what `cat a.gz b.gz`, pigz -i or
// bgzip produce; RFC 1952 section 2.2: a file is a series of members). The member boundaries
// are a pure function of key, so no tape draw is spent on them.
func gzMulti(b []byte, key uint64) []byte {
	members := 2 + int(core.Mix(key, 1)%3)
	var z bytes.Buffer
	start := 0
	for m := 0; m < members; m++ {
		end := len(b)
		if m < members-1 {
			end = start
			if len(b) > start {
				end = start + int(core.Mix(key, 2, uint64(m))%uint64(len(b)-start+1))
			}
		}
		w := gzip.NewWriter(&z)
		w.Write(b[start:end])
		w.Close()
		start = end
	}
	return z.Bytes()
}

func (c13) Run(t *testing.T, tape *core.Tape, rcx *RunCtx) *core.Result {
	res := &core.Result{}
	sc := &c13Scenario{}
	// every 40th run carries a sequence longer than any fixed line buffer
	large := core.Mix(uint64(rcx.Index), 0xc13)%40 == 7 // spread evenly over the worker processes
	nrec := 1
	switch tape.Weighted(35, 40, 20, 5) {
	case 0:
		nrec = 1
	case 1:
		nrec = 2 + tape.Draw(5)
	case 2:
		nrec = 7 + tape.Draw(30)
	default:
		nrec = 37 + tape.Draw(164)
		if tape.Chance(15) {
			nrec = 200 - tape.Draw(2) // the upper end of the quantified range
		}
	}
	if large {
		nrec = 1 + tape.Draw(4)
	}
	sc.Records = nrec
	recs := make([]fasta.Fasta, nrec)
	bigAt := tape.Draw(nrec)
	for i := range recs {
		recs[i] = fasta.Fasta{Name: c13Name(tape), Sequence: c13Seq(tape, large && i == bigAt)}
		if i > 0 && !(large && i == bigAt) {
			// duplicates are legal: the same name again, or the very same record again
			switch tape.Weighted(88, 6, 6) {
			case 1:
				recs[i].Name = recs[i-1].Name
			case 2:
				recs[i] = recs[tape.Draw(i)]
			}
		}
		if i < 5 {
			sc.Names = append(sc.Names, recs[i].Name)
		}
		if i < 20 {
			sc.SeqLens = append(sc.SeqLens, len(recs[i].Sequence))
		}
	}
	// render
	var text []byte
	var cuts []int
	useBuild := tape.Chance(35)
	if useBuild {
		sc.Writer = "fasta.Build"
		text = fasta.Build(recs)
		sc.Lines = 2 * nrec
		for i := 0; i < len(text); i++ {
			if text[i] == '>' {
				cuts = append(cuts, i, i+1)
			}
		}
	} else {
		sc.Writer = "independent"
		text, cuts = c13Write(tape, recs, sc, large)
	}
	sc.Bytes = len(text)
	if len(text) > 0 {
		h := text
		if len(h) > 160 {
			h = h[:160]
		}
		sc.TextHead = string(h)
	}
	sc.Gzip = tape.Chance(30)
	entry := tape.Weighted(45, 20, 9, 9, 9, 8)
	sc.Entry = []string{"ParseConcurrent", "Parse", "Read", "ReadGz", "ReadConcurrent", "ReadGzConcurrent"}[entry]
	switch entry {
	case 2, 4:
		sc.Gzip = false
	case 3, 5:
		sc.Gzip = true
	}
	payload := text
	if sc.Gzip {
		payload = gz(text)
		// one compressed file in four is a multi-member gzip stream
		if key := core.Mix(uint64(rcx.Index), 0xc13, 0x9a); key%4 == 1 {
			payload = gzMulti(text, key)
			res.Count("probe_multi_member_gzip", 1)
		}
		cuts = []int{1, 2, 3, 10, len(payload) - 8, len(payload) - 4, len(payload) - 1}
	}
	sc.Cap = []int{0, 1, 2, 1 + tape.Draw(1000), 1000, 999}[tape.Weighted(25, 20, 15, 30, 7, 3)]
	streaming := entry == 0 || entry == 4 || entry == 5
	var path string
	if entry >= 2 {
		path = filepath.Join(rcx.TmpDir, fmt.Sprintf("c13-%d.fasta", rcx.Index))
		if entry == 2 || entry == 4 {
			if useBuild {
				if tape.Chance(40) {
					// history: the path already holds an earlier, longer file written by the
					// library itself; writing the new list must replace it completely
					old := make([]fasta.Fasta, len(recs)+1+tape.Draw(3))
					for i := range old {
						old[i] = fasta.Fasta{Name: "previous " + c13Name(tape), Sequence: c13Seq(tape, false) + "ACGT"}
					}
					fasta.Write(old, path)
					sc.Writer = "fasta.Write over an existing longer file"
					res.Count("probe_write_over_existing_file", 1)
				} else {
					sc.Writer = "fasta.Write"
				}
				fasta.Write(recs, path) // the library's own writer
			} else {
				os.WriteFile(path, payload, 0o644)
			}
		} else {
			os.WriteFile(path, payload, 0o644)
		}
		defer os.Remove(path)
	}

	// a second, intact file parsed at the same time by another caller: two parses in
	// one process must not interfere (pooled buffers, package-level state)
	dual := tape.Chance(10) || (entry >= 2 && tape.Chance(20))
	var recsB, gotB []fasta.Fasta
	var textB []byte
	closedB := false
	entryB := 0
	pathB := ""
	if dual {
		recsB = make([]fasta.Fasta, 1+tape.Draw(6))
		for i := range recsB {
			recsB[i] = fasta.Fasta{Name: "b " + c13Name(tape), Sequence: c13Seq(tape, false)}
		}
		textB = fasta.Build(recsB)
		res.Count("probe_two_files_parsed_concurrently", 1)
		// the second caller comes in through any entry point as well: a stream, a
		// compressed stream, or a (compressed) file read whole or streamed
		entryB = tape.Weighted(45, 10, 15, 15, 15)
		sc.EntryB = []string{"ParseConcurrent", "ParseConcurrent(gzip)", "ReadConcurrent", "ReadGz", "ReadGzConcurrent"}[entryB]
		if entryB >= 2 {
			pathB = filepath.Join(rcx.TmpDir, fmt.Sprintf("c13-%d-b.fasta", rcx.Index))
			if entryB == 2 {
				os.WriteFile(pathB, textB, 0o644)
			} else {
				os.WriteFile(pathB, gz(textB), 0o644)
			}
			defer os.Remove(pathB)
		}
		if entryB == 1 {
			textB = gz(textB)
		}
	}
	var rdB *core.SimReader
	var got []fasta.Fasta
	var slice []fasta.Fasta
	var stallTime time.Duration
	stallCount := 0
	closed := false
	var sim *core.Sim
	var rd *core.SimReader
	leak, pv := core.Bubble(t, func() {
		sim = core.NewSim(tape)
		sim.Record = rcx.Record
		sim.TimeJitter = true
		// Liveness is judged against what the parser has been given so far, not against a
		// fixed cost: at any moment it may have used 20000 + 60 steps per byte handed to it
		// + 50 per Read call + 200 per delivered record. A correct parser may read far ahead
		// of its parsing (so the allowance is cumulative), but one that keeps running after
		// the input has ended cannot stay below a bound that has stopped growing.
		sim.MaxSteps = 400*(len(payload)+len(textB)) + 400*(sc.Lines+nrec+2*len(recsB)) + 100000 // backstop only
		sim.OnQuiesce = func() string {
			consumed, reads := len(payload), int64(0)
			if rd != nil {
				consumed, reads = rd.Consumed(), rd.Reads
			}
			if rdB != nil {
				consumed += rdB.Consumed()
				reads += rdB.Reads
			} else if dual {
				consumed += len(textB)
			}
			// a parser that polls with timers while the consumer stalls spends steps in
			// proportion to the simulated waiting time: 10000 steps per stalled second
			allowed := 20000 + 60*consumed + 50*int(reads) + 200*(len(got)+len(gotB)) + int(stallTime.Seconds()*10000) + 100*stallCount
			if sim.Steps > allowed {
				return fmt.Sprintf("%d scheduler steps used, %d allowed for %d bytes handed over in %d reads and %d records delivered", sim.Steps, allowed, consumed, reads, len(got))
			}
			return ""
		}
		if entry < 2 {
			rd = core.NewSimReader(sim, tape, payload, cuts, len(payload) > 20000)
			sc.Reader = rd.ModeName()
		}
		ch := make(chan fasta.Fasta, sc.Cap)
		sim.Go(func() {
			switch entry {
			case 0:
				var r io.Reader = rd
				if sc.Gzip {
					zr, err := gzip.NewReader(rd)
					if err != nil {
						panic("harness: gzip header: " + err.Error())
					}
					r = zr
				}
				fasta.ParseConcurrent(r, ch)
			case 1:
				var r io.Reader = rd
				if sc.Gzip {
					zr, err := gzip.NewReader(rd)
					if err != nil {
						panic("harness: gzip header: " + err.Error())
					}
					r = zr
				}
				slice = fasta.Parse(r)
			case 2:
				slice = fasta.Read(path)
			case 3:
				slice = fasta.ReadGz(path)
			case 4:
				fasta.ReadConcurrent(path, ch)
			case 5:
				fasta.ReadGzConcurrent(path, ch)
			}
		})
		if streaming {
			// the consumer is a real goroutine that blocks in a real receive (a polling
			// sender must be able to meet it) and yields before every receive, so when it
			// receives - eagerly, lazily, in bursts, after long stalls - is up to the scheduler
			stalls := tape.Chance(30) // this consumer also stalls in (fake) time, not only in scheduling
			sim.GoConsumer(func() {
				for {
					sim.Yield("consumer:before-receive")
					if stalls && tape.Draw(5) == 4 {
						d := []time.Duration{time.Millisecond, 50 * time.Millisecond, 300 * time.Millisecond, 2 * time.Second, 5 * time.Second}[tape.Draw(5)]
						time.Sleep(d)
						stallTime += d
						stallCount++
					}
					r, ok := <-ch
					if !ok {
						closed = true
						return
					}
					got = append(got, r)
				}
			})
		}
		if dual {
			chB := make(chan fasta.Fasta, []int{0, 1, 100}[tape.Draw(3)])
			if entryB < 2 {
				rdB = core.NewSimReader(sim, tape, textB, nil, len(textB) > 20000)
			}
			sim.Go(func() {
				switch entryB {
				case 0:
					fasta.ParseConcurrent(rdB, chB)
				case 1:
					zr, err := gzip.NewReader(rdB)
					if err != nil {
						panic("harness: gzip header: " + err.Error())
					}
					fasta.ParseConcurrent(zr, chB)
				case 2:
					fasta.ReadConcurrent(pathB, chB)
				case 3:
					for _, r := range fasta.ReadGz(pathB) {
						chB <- r
					}
					close(chB)
				case 4:
					fasta.ReadGzConcurrent(pathB, chB)
				}
			})
			sim.GoConsumer(func() {
				for {
					sim.Yield("consumer-b:before-receive")
					r, ok := <-chB
					if !ok {
						closedB = true
						return
					}
					gotB = append(gotB, r)
				}
			})
		}
		sim.Run()
	})
	res.Steps = sim.Steps
	res.LogHash = sim.LogHash()
	res.Strategy = sim.Strategy
	res.Trace = sim.Trace
	if rd != nil {
		res.Count("fault_short_read", rd.ShortReads)
		res.Count("fault_zero_length_read", rd.ZeroReads)
		res.Count("fault_data_with_eof", rd.EOFWithData)
		res.Count("probe_chunk_boundary_at_interesting_offset", rd.CutHits)
		res.Count("reader_calls", rd.Reads)
	}
	res.Nontrivial = sim.Multi > 0 || (rd != nil && rd.ShortReads+rd.ZeroReads+rd.EOFWithData > 0)
	res.ShapeKey = fmt.Sprintf("%s|%s|n%d|cap%d|gz%v|%s|%s|%s|b%d", sc.Entry, sc.Writer, nrec, sc.Cap, sc.Gzip, sc.Wrap, sc.LineEnd, sc.Reader, len(payload))
	res.Count("decisions_with_choice", int64(sim.Multi))
	res.Count("yields_passed_by_a_lone_runnable_task", int64(sim.Skipped))
	res.Count("fault_timer_wins_race_time_passes_while_runnable", int64(sim.Jitters))
	res.Count("fault_consumer_stall_in_simulated_time", int64(stallCount))
	res.SimTimeNs = int64(sim.SimTime)
	res.Count("probe_entry_"+sc.Entry, 1)
	if large {
		res.Count("probe_sequence_line_over_64KiB_candidates", 1)
	}
	if sc.Cap == 0 {
		res.Count("probe_unbuffered_channel", 1)
	}
	sc.End, sc.Panics, sc.Closed = sim.End, sim.Panics, closed
	if !streaming {
		got = slice
	}
	sc.Received = len(got)
	if rcx.Record {
		res.Scenario = sc
	}
	switch {
	case pv != nil:
		res.Class, res.Detail = "machinery:harness-panic", fmt.Sprint(pv)
	case sim.End == core.EndMachinery:
		res.Class, res.Detail = "machinery:scheduler", sim.MachineryError()
	case len(sim.Panics) > 0:
		res.Class, res.Detail = violation("panic"), fmt.Sprintf("%s in task %s at %s", sim.Panics[0].Value, sim.Panics[0].Task, sim.Panics[0].Site)
	case sim.End == core.EndBudget || sim.End == core.EndTaskCap || sim.End == core.EndStopped:
		res.Class, res.Detail = violation("termination"), fmt.Sprintf("parser still running after %d scheduler steps (%d bytes, %d lines) %s", sim.Steps, len(payload), sc.Lines, sim.StopMessage())
	case sim.End == core.EndDeadlock:
		res.Class, res.Detail = violation("deadlock"), fmt.Sprintf("parser blocked with nothing left to run; consumer received %d of %d records, channel closed=%v", len(got), nrec, closed)
	case streaming && !closed:
		res.Class, res.Detail = violation("channel-not-closed"), fmt.Sprintf("the reader reached EOF and the consumer drained %d records but the channel was never closed", len(got))
	case leak && !rcx.Isolated:
		res.Class, res.Detail = violation("goroutine-left-blocked"), "a goroutine started by the parser is blocked forever after the stream ended"
	default:
		if len(got) != len(recs) {
			res.Class, res.Detail = violation("record-count"), fmt.Sprintf("%d records written, %d parsed (%s)", len(recs), len(got), c13FirstDiff(recs, got))
		} else if d := c13FirstDiff(recs, got); d != "" {
			res.Class, res.Detail = violation("record-mismatch"), d
		}
	}
	if dual && res.Class == "" {
		if !closedB {
			res.Class, res.Detail = violation("concurrent-parse-interference"), fmt.Sprintf("an intact file of %d records parsed at the same time: its channel was never closed (%d records received)", len(recsB), len(gotB))
		} else if len(gotB) != len(recsB) {
			res.Class, res.Detail = violation("concurrent-parse-interference"), fmt.Sprintf("an intact file of %d records parsed at the same time delivered %d (%s)", len(recsB), len(gotB), c13FirstDiff(recsB, gotB))
		} else if d := c13FirstDiff(recsB, gotB); d != "" {
			res.Class, res.Detail = violation("concurrent-parse-interference"), "intact file parsed at the same time: "+d
		}
	}
	return res
}

func c13FirstDiff(want, got []fasta.Fasta) string {
	for i := range want {
		if i >= len(got) {
			return fmt.Sprintf("record %d missing", i)
		}
		if want[i].Name != got[i].Name {
			return fmt.Sprintf("record %d name %q parsed as %q", i, clip(want[i].Name), clip(got[i].Name))
		}
		if want[i].Sequence != got[i].Sequence {
			return fmt.Sprintf("record %d sequence of %d letters parsed as %d letters (first difference at %d)", i, len(want[i].Sequence), len(got[i].Sequence), firstDiffAt(want[i].Sequence, got[i].Sequence))
		}
	}
	return ""
}

func firstDiffAt(a, b string) int {
	i := 0
	for i < len(a) && i < len(b) && a[i] == b[i] {
		i++
	}
	return i
}

func clip(s string) string {
	if len(s) > 60 {
		return s[:60] + "..."
	}
	return s
}
