package props

import (
	"strings"

	"verifharness/core"
)

// Independent DNA helpers (deliberately not poly's own transform / seqhash).

func rc(s string) string {
	b := make([]byte, len(s))
	for i := 0; i < len(s); i++ {
		var c byte
		switch s[len(s)-1-i] {
		case 'A':
			c = 'T'
		case 'T':
			c = 'A'
		case 'C':
			c = 'G'
		case 'G':
			c = 'C'
		case 'a':
			c = 't'
		case 't':
			c = 'a'
		case 'c':
			c = 'g'
		case 'g':
			c = 'c'
		default:
			c = s[len(s)-1-i]
		}
		b[i] = c
	}
	return string(b)
}

// leastRotation is the brute-force lexicographically least rotation.
func leastRotation(s string) string {
	if len(s) == 0 {
		return s
	}
	d := s + s
	best := 0
	n := len(s)
	for i := 1; i < n; i++ {
		if d[i:i+n] < d[best:best+n] {
			best = i
		}
	}
	return d[best : best+n]
}

// canonCircular canonicalises a circular double-stranded molecule: the least
// rotation over both strands, upper-cased.
func canonCircular(s string) string {
	s = strings.ToUpper(s)
	a := leastRotation(s)
	b := leastRotation(rc(s))
	if b < a {
		return b
	}
	return a
}

func randDNA(t *core.Tape, n int) string {
	b := make([]byte, n)
	for i := range b {
		b[i] = "ACGT"[t.Draw(4)]
	}
	return string(b)
}

// countCircular counts occurrences of pat in the circular sequence s.
func countCircular(s, pat string) int {
	if len(s) == 0 {
		return 0
	}
	d := s
	for len(d) < len(s)+len(pat)-1 {
		d += s
	}
	d = d[:len(s)+len(pat)-1]
	return countOverlapping(d, pat)
}

func countOverlapping(s, pat string) int {
	c := 0
	for i := 0; i+len(pat) <= len(s); i++ {
		if s[i:i+len(pat)] == pat {
			c++
		}
	}
	return c
}
