package props

import (
	"strings"

	"verifharness/core"
)

// Independent DNA helpers (deliberately not poly's own transform / seqhash).

func rc(s string) string {
	b := make([]byte, len(s))
	for i := 0; i < len(s); i++ {
		var c byte
		switch s[len(s)-1-i] {
		case 'A':
			c = 'T'
		case 'T':
			c = 'A'
		case 'C':
			c = 'G'
		case 'G':
			c = 'C'
		case 'a':
			c = 't'
		case 't':
			c = 'a'
		case 'c':
			c = 'g'
		case 'g':
			c = 'c'
		// IUPAC degenerate bases (NNK libraries, N barcodes)
		case 'R':
			c = 'Y'
		case 'Y':
			c = 'R'
		case 'K':
			c = 'M'
		case 'M':
			c = 'K'
		case 'B':
			c = 'V'
		case 'V':
			c = 'B'
		case 'D':
			c = 'H'
		case 'H':
			c = 'D'
		case 'r':
			c = 'y'
		case 'y':
			c = 'r'
		case 'k':
			c = 'm'
		case 'm':
			c = 'k'
		case 'b':
			c = 'v'
		case 'v':
			c = 'b'
		case 'd':
			c = 'h'
		case 'h':
			c = 'd'
		default: // S, W, N and anything else are their own complement
			c = s[len(s)-1-i]
		}
		b[i] = c
	}
	return string(b)
}

// leastRotation is the brute-force lexicographically least rotation.
func leastRotation(s string) string {
	if len(s) == 0 {
		return s
	}
	d := s + s
	best := 0
	n := len(s)
	for i := 1; i < n; i++ {
		if d[i:i+n] < d[best:best+n] {
			best = i
		}
	}
	return d[best : best+n]
}

// canonCircular canonicalises a circular double-stranded molecule: the least
// rotation over both strands, upper-cased.
func canonCircular(s string) string {
	s = strings.ToUpper(s)
	a := leastRotation(s)
	b := leastRotation(rc(s))
	if b < a {
		return b
	}
	return a
}

// randDNAIUPAC draws DNA that now and then contains degenerate bases.
func randDNAIUPAC(t *core.Tape, n int) string {
	b := make([]byte, n)
	for i := range b {
		if t.Draw(4) == 3 {
			b[i] = "NNNNKSRYWMBDHV"[t.Draw(14)]
		} else {
			b[i] = "ACGT"[t.Draw(4)]
		}
	}
	return string(b)
}

func randDNA(t *core.Tape, n int) string {
	b := make([]byte, n)
	for i := range b {
		b[i] = "ACGT"[t.Draw(4)]
	}
	return string(b)
}

// countCircular counts occurrences of pat in the circular sequence s.
func countCircular(s, pat string) int {
	if len(s) == 0 {
		return 0
	}
	d := s
	for len(d) < len(s)+len(pat)-1 {
		d += s
	}
	d = d[:len(s)+len(pat)-1]
	return countOverlapping(d, pat)
}

func countOverlapping(s, pat string) int {
	c := 0
	for i := 0; i+len(pat) <= len(s); i++ {
		if s[i:i+len(pat)] == pat {
			c++
		}
	}
	return c
}
