package core

import (
	"errors"
	"io"
	"sort"
)

// ErrInjected is the sticky non-EOF read error SimReader injects.
var ErrInjected = errors.New("simulated I/O error")

// SimReader is the simulated byte source: it serves a fixed byte string under
// a drawn chunking policy, using only behaviour that is legal for an
// io.Reader (short reads, a bounded number of zero-length reads, data
// together with io.EOF), plus - when asked - a sticky non-EOF error at a
// chosen offset. Truncation is expressed by handing it a shorter byte string.
// Every Read first yields to the scheduler, so when bytes are delivered is a
// scheduling decision.
type SimReader struct {
	sim   *Sim
	t     *Tape
	data  []byte
	pos   int
	mode  int
	fixed int
	cuts  []int // interesting offsets: a chunk boundary is biased to land exactly there
	ErrAt int   // offset at which reads start failing with ErrInjected (<0: never)
	zeros int
	// observations
	Reads, ZeroReads, ShortReads, EOFWithData, CutHits, ErrReturned, ErrWithData int64
	Finished                                                                     bool // EOF or the error has been returned
	LastN                                                                        int  // bytes handed out by the most recent Read
}

const (
	rdWhole = iota
	rdFixed
	rdSmall
	rdCuts
	rdMixed
	rdBufEdge
	numReaderModes
)

// NewSimReader draws a chunking policy. cuts are offsets the caller finds
// interesting (inside CRLF, at '>', inside a tag, inside a multibyte rune ...).
func NewSimReader(sim *Sim, t *Tape, data []byte, cuts []int, large bool) *SimReader {
	r := &SimReader{sim: sim, t: t, data: data, ErrAt: -1}
	r.cuts = append(r.cuts, cuts...)
	sort.Ints(r.cuts)
	if large {
		// keep the number of reads of a large input bounded
		r.mode = []int{rdWhole, rdFixed, rdBufEdge, rdCuts}[t.Draw(4)]
		r.fixed = []int{4096, 4095, 4097, 65536, 65535, 32 * 1024, 1000}[t.Draw(7)]
		if r.mode == rdCuts && len(r.cuts) > 64 {
			r.mode = rdBufEdge
		}
		return r
	}
	r.mode = t.Draw(numReaderModes)
	r.fixed = []int{1, 2, 3, 5, 7, 16, 64, 512, 4096}[t.Draw(9)]
	return r
}

// ModeName names the drawn policy.
func (r *SimReader) ModeName() string {
	return []string{"whole", "fixed", "small-random", "cut-biased", "mixed", "buffer-edge"}[r.mode]
}

func (r *SimReader) nextCut() int {
	i := sort.SearchInts(r.cuts, r.pos+1)
	if i < len(r.cuts) {
		return r.cuts[i]
	}
	return len(r.data)
}

func (r *SimReader) Read(p []byte) (int, error) {
	if r.sim != nil {
		r.sim.Yield("simreader:read")
	}
	r.Reads++
	if len(p) == 0 {
		return 0, nil
	}
	if r.ErrAt >= 0 && r.pos >= r.ErrAt {
		r.ErrReturned++
		r.Finished = true
		return 0, ErrInjected
	}
	if r.pos >= len(r.data) {
		r.Finished = true
		return 0, io.EOF
	}
	// a bounded number of zero-length reads is legal reader behaviour
	if r.mode == rdMixed && r.zeros < 3 && r.t.Draw(12) == 11 {
		r.zeros++
		r.ZeroReads++
		return 0, nil
	}
	r.zeros = 0
	rem := len(r.data) - r.pos
	n := rem
	switch r.mode {
	case rdWhole:
	case rdFixed:
		n = r.fixed
	case rdSmall:
		n = 1 + r.t.Draw(16)
	case rdCuts:
		n = r.nextCut() - r.pos
	case rdMixed:
		switch r.t.Draw(4) {
		case 0:
			n = 1
		case 1:
			n = 1 + r.t.Draw(64)
		case 2:
			n = r.nextCut() - r.pos
		default:
			n = 1 + r.t.Draw(5000)
		}
	case rdBufEdge:
		n = r.fixed - 2 + r.t.Draw(5)
	}
	if n < 1 {
		n = 1
	}
	if n > rem {
		n = rem
	}
	if n > len(p) {
		n = len(p)
	}
	if r.ErrAt >= 0 && r.pos+n > r.ErrAt {
		n = r.ErrAt - r.pos
	}
	if n < rem {
		r.ShortReads++
	}
	copy(p, r.data[r.pos:r.pos+n])
	r.pos += n
	r.LastN = n
	if i := sort.SearchInts(r.cuts, r.pos); i < len(r.cuts) && r.cuts[i] == r.pos {
		r.CutHits++
	}
	if r.ErrAt >= 0 && r.pos == r.ErrAt && n > 0 && r.t.Draw(2) == 1 {
		// the last bytes before the fault arrive together with the error: legal
		r.ErrWithData++
		r.ErrReturned++
		r.Finished = true
		return n, ErrInjected
	}
	if r.pos == len(r.data) && (r.ErrAt < 0 || r.ErrAt > r.pos) && r.t.Draw(2) == 1 {
		// data together with EOF: legal
		r.EOFWithData++
		r.Finished = true
		return n, io.EOF
	}
	return n, nil
}

// Consumed is the number of bytes handed out so far.
func (r *SimReader) Consumed() int { return r.pos }
