package core

import "fmt"

// strategy is the per-run scheduling policy, drawn from the tape (swarm
// style). Every decision of every policy is a tape draw in which 0 means "the
// candidate with the lowest task id", so an all-zero tape is the simplest
// schedule and shrinking moves towards it.
type strategy struct {
	kind    int
	stickP  int   // sticky: percent chance to keep the running task
	change  []int // pct: steps at which the running task is demoted
	eps     int   // newest/oldest: 1-in-eps random deviation
	starve  int   // site-delay: starved site class
	classes int
	nprio   int
}

const (
	stUniform = iota
	stSticky
	stPCT
	stNewest
	stOldest
	stSiteDelay
	stLazyActors
	stEagerActors
	numStrategies
)

var strategyNames = []string{"uniform", "sticky", "pct", "newest-first", "oldest-first", "site-delay", "lazy-actors", "eager-actors"}

func (st *strategy) name() string {
	switch st.kind {
	case stSticky:
		return fmt.Sprintf("sticky(%d%%)", st.stickP)
	case stPCT:
		return fmt.Sprintf("pct(d=%d)", len(st.change)+1)
	}
	return strategyNames[st.kind]
}

func (st *strategy) init(t *Tape) {
	st.kind = t.Draw(numStrategies)
	switch st.kind {
	case stSticky:
		st.stickP = []int{50, 75, 90, 97}[t.Draw(4)]
	case stPCT:
		d := t.Draw(3) // number of change points
		for i := 0; i < d; i++ {
			st.change = append(st.change, 1+t.Draw(400))
		}
	case stNewest, stOldest:
		st.eps = []int{0, 4, 16}[t.Draw(3)]
	case stSiteDelay:
		st.classes = 5
		st.starve = t.Draw(st.classes)
	}
}

func siteClass(site string, n int) int { return int(HashString(site) % uint64(n)) }

func (st *strategy) pick(s *Sim, cs []cand) int {
	t := s.T
	n := len(cs)
	if n == 1 {
		return 0
	}
	switch st.kind {
	case stSticky:
		for i, c := range cs {
			if c.id() == s.lastID {
				if t.Draw(100) < st.stickP {
					return i
				}
				break
			}
		}
		return t.Draw(n)
	case stPCT:
		// lazily assign priorities (higher runs first); demote at change points
		for _, c := range cs {
			if c.t != nil && c.t.prio == 0 {
				c.t.prio = 1000 + t.Draw(1000)
			}
			if c.a != nil && c.a.prio == 0 {
				c.a.prio = 1000 + t.Draw(1000)
			}
		}
		best, bp := 0, -1
		for i, c := range cs {
			p := 0
			if c.t != nil {
				p = c.t.prio
			} else {
				p = c.a.prio
			}
			if p > bp {
				best, bp = i, p
			}
		}
		for _, cp := range st.change {
			if cp == s.Steps {
				st.nprio++
				if cs[best].t != nil {
					cs[best].t.prio = 1000 - st.nprio
				} else {
					cs[best].a.prio = 1000 - st.nprio
				}
			}
		}
		return best
	case stNewest, stOldest:
		if st.eps > 0 && t.Draw(st.eps) == st.eps-1 {
			return t.Draw(n)
		}
		best := -1
		for i, c := range cs {
			if c.t == nil {
				continue
			}
			if best < 0 || (st.kind == stNewest && c.t.Seq > cs[best].t.Seq) || (st.kind == stOldest && c.t.Seq < cs[best].t.Seq) {
				best = i
			}
		}
		if best < 0 {
			return t.Draw(n)
		}
		// actors get a turn now and then so consumers make progress
		if n > 1 && cs[n-1].a != nil && t.Draw(4) == 3 {
			return n - 1 - t.Draw(countActors(cs))
		}
		return best
	case stSiteDelay:
		var ok []int
		for i, c := range cs {
			if c.t != nil && siteClass(c.t.site, st.classes) == st.starve {
				continue
			}
			ok = append(ok, i)
		}
		if len(ok) == 0 {
			return t.Draw(n)
		}
		return ok[t.Draw(len(ok))]
	case stLazyActors:
		// consumers (actors and consumer tasks) act only when nothing else can run
		var others []int
		for i, c := range cs {
			if !c.consumer() {
				others = append(others, i)
			}
		}
		if len(others) > 0 {
			return others[t.Draw(len(others))]
		}
		return t.Draw(n)
	case stEagerActors:
		var cons []int
		for i, c := range cs {
			if c.consumer() {
				cons = append(cons, i)
			}
		}
		if len(cons) > 0 && t.Draw(8) != 7 {
			return cons[t.Draw(len(cons))]
		}
		return t.Draw(n)
	}
	return t.Draw(n)
}

func countActors(cs []cand) int {
	k := 0
	for _, c := range cs {
		if c.a != nil {
			k++
		}
	}
	return k
}
