package core

import (
	"fmt"
	"hash/fnv"
	"os"
	"reflect"
	"runtime"
	"sort"
	"strconv"
	"strings"
	"sync"
	"sync/atomic"
	"testing"
	"testing/synctest"
	"time"

	simrt "github.com/TimothyStiles/poly/simrt"
)

// Task is one goroutine of the system under test (or a harness client),
// parked at an inserted yield point whenever it is not the one chosen to run.
type Task struct {
	burst        int   // yields this task may still pass without parking (it was the only candidate when released)
	prevPlain    bool  // the statement executed since this task's last yield cannot have woken anybody
	pendingChild *Task // reserved in BeforeGo, claimed by the child's first yield
	waitingSince int   // scheduler step at which the task last became schedulable
	Path         []int // spawn path: the task's identity, independent of arrival order and goroutine ids
	ID           string
	Seq          int // creation order
	goid         uint64
	wake         chan struct{}
	site         string
	nchild       int
	Client       bool
	Consumer     bool          // a harness consumer of the channels under test (lazy / eager strategies treat it like an actor)
	Done         bool          // clients only: fn returned (or the goroutine ended)
	sleep        time.Duration // requested fake-clock advance before the next release
	prio         int
	runs         int
	held         int             // modelled locks held: no yields inside a critical section
	heldW        map[uintptr]int // write locks this task took, by lock identity
}

// Actor is a simulator-owned action executed by the scheduler goroutine itself
// at a quiescent point (a consumer taking from a channel, for example).
type Actor struct {
	waitingSince int
	Name         string
	Enabled      func() bool
	// Run returns a short outcome label for the event log and whether it made
	// progress (a receive that found nothing to receive did not).
	Run  func() (string, bool)
	prio int
	idle bool // made no progress and nothing has run since: not a candidate (fairness)
}

// PanicRec is a panic recovered inside an instrumented function.
type PanicRec struct {
	Task  string `json:"task"`
	Site  string `json:"site"`
	Value string `json:"value"`
}

// Outcome classes of the scheduler itself.
const (
	EndQuiescent = "quiescent" // nothing left to run
	EndDeadlock  = "deadlock"  // nothing left to run but a client has not finished
	EndBudget    = "budget"    // step budget exceeded
	EndTaskCap   = "taskcap"   // live task cap exceeded
	EndMachinery = "machinery" // simulator trouble: never a verdict
	EndStopped   = "stopped"   // the property asked to stop (violation seen at a quiescent point)
)

// Sim is the deterministic scheduler. One Sim drives one run inside one
// synctest bubble.
type Sim struct {
	T        *Tape
	MaxSteps int
	MaxTasks int
	// OnQuiesce is evaluated by the scheduler at every quiescent point; a
	// non-empty return stops the run (EndStopped) with that message.
	OnQuiesce func() string
	// ClientsDone decides whether the scenario is complete; when nil it is
	// "every client has returned".
	Record bool // keep a decoded schedule
	// TimeJitter lets the scheduler now and then pass simulated time while tasks are
	// runnable (off where the clock itself is the subject, as in C07).
	TimeJitter bool

	mu        sync.Mutex
	tasks     map[uint64]*Task
	all       []*Task
	parked    []*Task // sorted by spawn path
	arrived   []*Task // parked since the last quiescent point, in arrival order (not yet sorted in)
	locks     map[uintptr]*lockState
	chanWait  map[uintptr][]*Task // tasks parked until a package-level buffered channel can serve them
	condWait  map[uintptr][]*Task // tasks waiting on a modelled sync.Cond, in arrival (FIFO) order
	LockWaits int                 // times a task had to wait for a modelled lock
	pending   *Task
	rootG     uint64
	aborted   atomic.Bool
	clients   []*Task
	actors    []*Actor
	strat     strategy
	lastID    string
	machErr   string
	stopMsg   string
	Steps     int
	End       string
	Panics    []PanicRec
	SimTime   time.Duration
	Trace     []string
	h         uint64
	Multi     int // number of decisions with >= 2 candidates
	MaxLive   int
	Strategy  string
	Stale     int // reservations that were never claimed
	Skipped   int // yields a lone runnable task passed without a scheduler round trip
	NoBurst   bool
	Adopted   int // goroutines taken over from an earlier simulator of this process (or started outside any)
	serial    int
	Jitters   int // times simulated time was let pass although tasks were runnable
	IdleWaits int // times the fake clock ran because every task slept
	idleSlept bool
	current   *Task         // the task released most recently
	arrivedCh chan struct{} // poked whenever a task parks (lets an idle scheduler stop waiting for timers)
	consec    int
}

func goid() uint64 {
	var buf [64]byte
	n := runtime.Stack(buf[:], false)
	s := buf[:n]
	// "goroutine 123 ["
	i := 10
	var id uint64
	for i < len(s) && s[i] >= '0' && s[i] <= '9' {
		id = id*10 + uint64(s[i]-'0')
		i++
	}
	return id
}

func pathID(p []int) string {
	var b strings.Builder
	for i, x := range p {
		if i > 0 {
			b.WriteByte('.')
		}
		b.WriteString(strconv.Itoa(x))
	}
	return b.String()
}

func pathLess(a, b []int) bool {
	for i := 0; i < len(a) && i < len(b); i++ {
		if a[i] != b[i] {
			return a[i] < b[i]
		}
	}
	return len(a) < len(b)
}

// NewSim creates a scheduler; it must be created and run on the bubble's root goroutine.
// Goroutines that outlive the simulator they were first seen by (an idle worker
// pool that the code under test keeps for its next call) are recognised by the next
// simulator of the same process under the name they were given then: identity does
// not depend on arrival order.
var (
	everSeenMu sync.Mutex
	everSeen   = map[uint64]string{}
	simSerial  int
)

func rememberGoroutine(g uint64, name string) {
	everSeenMu.Lock()
	if _, ok := everSeen[g]; !ok {
		everSeen[g] = name
	}
	everSeenMu.Unlock()
}

// adopt makes a task of a goroutine this simulator did not start: one that an earlier
// simulator of this process knew, or one that was started while no simulator was
// active. Called with s.mu held.
func (s *Sim) adopt(g uint64) *Task {
	everSeenMu.Lock()
	name, known := everSeen[g]
	if !known {
		name = fmt.Sprintf("s%d-stranger%d", s.serial, s.Adopted)
		everSeen[g] = name
	}
	everSeenMu.Unlock()
	t := &Task{Path: []int{1<<20 + int(HashString(name)%(1<<30))}, Seq: len(s.all), wake: make(chan struct{}), goid: g}
	t.ID = "adopted:" + name
	s.all = append(s.all, t)
	s.tasks[g] = t
	s.Adopted++
	return t
}

// adoptKnown adopts g only if an earlier simulator of this process knew it.
func (s *Sim) adoptKnown(g uint64) *Task {
	everSeenMu.Lock()
	_, known := everSeen[g]
	everSeenMu.Unlock()
	if !known {
		return nil
	}
	return s.adopt(g)
}

func NewSim(t *Tape) *Sim {
	everSeenMu.Lock()
	simSerial++
	serial := simSerial
	everSeenMu.Unlock()
	return &Sim{serial: serial, NoBurst: os.Getenv("VERIF_NOBURST") != "", T: t, MaxSteps: 1 << 20, MaxTasks: 20000, tasks: map[uint64]*Task{}, rootG: goid(), h: 14695981039346656037, arrivedCh: make(chan struct{}, 1)}
}

func (s *Sim) logEvent(ev string) {
	for i := 0; i < len(ev); i++ {
		s.h ^= uint64(ev[i])
		s.h *= 1099511628211
	}
	s.h ^= 0xff
	s.h *= 1099511628211
	if s.Record && len(s.Trace) < 4000 {
		s.Trace = append(s.Trace, ev)
	}
}

// Note adds a property-level event to the event log (never draws).
func (s *Sim) Note(ev string) { s.logEvent("#" + ev) }

// LogHash is the hash of the full event log so far.
func (s *Sim) LogHash() string { return fmt.Sprintf("%016x", s.h) }

func (s *Sim) machinery(msg string) {
	if s.machErr == "" {
		s.machErr = msg
	}
	s.aborted.Store(true)
}

// MachineryError reports simulator trouble (never a property verdict).
func (s *Sim) MachineryError() string { return s.machErr }

// StopMessage is what OnQuiesce returned when End == EndStopped.
func (s *Sim) StopMessage() string { return s.stopMsg }

func (s *Sim) hook(site string)      { s.hookP(site, false) }
func (s *Sim) plainHook(site string) { s.hookP(site, true) }

// exitHook: an instrumented function is returning. What its caller executes next
// (the rest of the calling statement) is not covered by the callee's last yield.
func (s *Sim) exitHook() {
	g := goid()
	if g == s.rootG {
		return
	}
	s.mu.Lock()
	if t := s.tasks[g]; t != nil {
		t.prevPlain = false
	}
	s.mu.Unlock()
}

// hookP is the yield point. plain says that the statement following this yield
// neither calls nor communicates (the instrumenter decides that syntactically).
func (s *Sim) hookP(site string, plain bool) {
	g := goid()
	if g == s.rootG {
		return
	}
	s.mu.Lock()
	t := s.tasks[g]
	if t == nil {
		// a goroutine the simulator has not seen yet: it claims the reservation its
		// parent made in BeforeGo. The parent is the task that is running now; failing
		// that (the go statement was executed by a task woken through a channel
		// hand-off) the only task with an outstanding reservation.
		var parent *Task
		if s.current != nil && s.current.pendingChild != nil {
			parent = s.current
		} else {
			for _, c := range s.all {
				if c.pendingChild != nil {
					if parent != nil {
						parent = nil
						break
					}
					parent = c
				}
			}
		}
		everSeenMu.Lock()
		_, daemon := everSeen[g]
		everSeenMu.Unlock()
		if parent == nil || daemon {
			// no go statement of this simulator started it: a goroutine that outlived an
			// earlier simulator, or was started while none was active
			t = s.adopt(g)
		} else {
			t = parent.pendingChild
			parent.pendingChild = nil
			t.goid = g
			s.tasks[g] = t
			rememberGoroutine(g, fmt.Sprintf("s%d-%s", s.serial, t.ID))
		}
	}
	if s.aborted.Load() {
		s.mu.Unlock()
		runtime.Goexit()
	}
	if t.burst > 0 && t.prevPlain {
		// This task was the only one that could run when it was released, and everything
		// it has executed since was plain: nobody else can have become runnable, so there
		// is no decision to take here. Not a scheduler step, not an event.
		t.burst--
		t.prevPlain = plain
		s.Skipped++
		s.mu.Unlock()
		return
	}
	t.burst = 0
	t.prevPlain = plain
	if t.held > 0 && t.pendingChild == nil {
		// Inside a critical section the task runs on to its unlock: nobody else can
		// enter anyway, and a task parked with a lock held would make a goroutine that
		// is woken inside sync.Cond.Wait block on the real mutex, which the simulator
		// cannot see. Races BETWEEN critical sections are still scheduled.
		s.mu.Unlock()
		return
	}
	t.site = site
	s.arrived = append(s.arrived, t)
	s.mu.Unlock()
	select {
	case s.arrivedCh <- struct{}{}:
	default:
	}
	<-t.wake
	if s.aborted.Load() {
		runtime.Goexit()
	}
}

func (s *Sim) spawnHook(site string) {
	g := goid()
	s.mu.Lock()
	defer s.mu.Unlock()
	p := s.tasks[g]
	if p == nil {
		p = s.adopt(g)
	}
	if p.pendingChild != nil {
		s.Stale++ // the previous go statement of this task started something that never yields
	}
	c := &Task{Path: append(append([]int{}, p.Path...), p.nchild), Seq: len(s.all), wake: make(chan struct{})}
	c.ID = pathID(c.Path)
	p.nchild++
	s.all = append(s.all, c)
	// The reservation stays with the parent until the child's first yield claims it: the
	// arguments of the go statement are evaluated first and may themselves yield
	// (go f(open(path)) parks the parent inside open before the goroutine exists).
	p.pendingChild = c
}

func (s *Sim) panicHook(site string, v interface{}) {
	g := goid()
	if g == s.rootG {
		panic(v)
	}
	s.mu.Lock()
	id := "?"
	if t := s.tasks[g]; t != nil {
		id = t.ID
	}
	s.Panics = append(s.Panics, PanicRec{Task: id, Site: site, Value: fmt.Sprint(v)})
	s.mu.Unlock()
	runtime.Goexit()
}

// lockState is the simulator's model of one mutex-like object. Tasks never
// block inside the real sync primitive: the real Lock is only executed by a
// task the model has granted the lock to, so it always succeeds at once.
type lockState struct {
	writer  *Task
	readers map[*Task]int
	waiters []*Task
}

func lockIdentity(lock interface{}) uintptr {
	v := reflect.ValueOf(lock)
	for v.Kind() == reflect.Ptr && !v.IsNil() && v.Elem().Kind() == reflect.Ptr {
		v = v.Elem()
	}
	if v.Kind() == reflect.Ptr {
		return v.Pointer()
	}
	return 0
}

func (s *Sim) lockHook(site string, lock interface{}, write bool, acquire bool) {
	g := goid()
	if g == s.rootG {
		return
	}
	id := lockIdentity(lock)
	s.mu.Lock()
	t := s.tasks[g]
	if t == nil && id != 0 {
		t = s.adoptKnown(g)
	}
	if t == nil || id == 0 {
		s.mu.Unlock()
		return
	}
	if s.locks == nil {
		s.locks = map[uintptr]*lockState{}
	}
	ls := s.locks[id]
	if ls == nil {
		ls = &lockState{readers: map[*Task]int{}}
		s.locks[id] = ls
	}
	if !acquire {
		if write {
			// the task's own bookkeeping decides: a goroutine woken inside
			// sync.Cond.Wait may already have taken the lock over in the model
			if t.heldW[id] > 0 {
				t.heldW[id]--
				t.held--
			}
			if ls.writer == t {
				ls.writer = nil
			}
		} else if ls.readers[t] > 0 {
			ls.readers[t]--
			t.held--
			if ls.readers[t] == 0 {
				delete(ls.readers, t)
			}
		}
		// everybody waiting for this lock becomes schedulable again and re-tries
		s.arrived = append(s.arrived, ls.waiters...)
		ls.waiters = nil
		s.mu.Unlock()
		return
	}
	for {
		free := ls.writer == nil && (!write || len(ls.readers) == 0)
		if free {
			if write {
				ls.writer = t
				if t.heldW == nil {
					t.heldW = map[uintptr]int{}
				}
				t.heldW[id]++
			} else {
				ls.readers[t]++
			}
			t.held++
			s.mu.Unlock()
			return
		}
		if s.aborted.Load() {
			s.mu.Unlock()
			runtime.Goexit()
		}
		s.LockWaits++
		t.site = "lock-wait:" + site
		ls.waiters = append(ls.waiters, t)
		s.mu.Unlock()
		<-t.wake
		if s.aborted.Load() {
			runtime.Goexit()
		}
		s.mu.Lock()
	}
}

// condOf returns the *sync.Cond behind a pointer (or pointer to pointer), or nil.
func condOf(c interface{}) *sync.Cond {
	switch v := c.(type) {
	case *sync.Cond:
		return v
	case **sync.Cond:
		if v != nil {
			return *v
		}
	}
	return nil
}

// condWaitHook performs a whole sync.Cond.Wait inside the simulator: the task
// gives up the condition's lock (really and in the model), waits in the
// simulator until a modelled Signal/Broadcast selects it (FIFO, as the real
// Cond does), re-takes the lock and reports that the real Wait must be skipped.
// Who is woken, and when it runs, are thereby scheduler decisions.
func (s *Sim) condWaitHook(site string, c interface{}) bool {
	g := goid()
	if g == s.rootG {
		return false
	}
	cond := condOf(c)
	if cond == nil || cond.L == nil {
		return false // a WaitGroup, or something else with a Wait method
	}
	lv := reflect.ValueOf(cond.L)
	if lv.Kind() != reflect.Ptr {
		return false
	}
	lid := lv.Pointer()
	cid := reflect.ValueOf(cond).Pointer()
	s.mu.Lock()
	t := s.tasks[g]
	if t == nil {
		t = s.adoptKnown(g)
	}
	if t == nil {
		s.mu.Unlock()
		return false
	}
	if s.locks == nil {
		s.locks = map[uintptr]*lockState{}
	}
	ls := s.locks[lid]
	if ls == nil {
		ls = &lockState{readers: map[*Task]int{}}
		s.locks[lid] = ls
	}
	if t.heldW == nil {
		t.heldW = map[uintptr]int{}
	}
	// give the lock up
	if t.heldW[lid] > 0 {
		t.heldW[lid]--
		t.held--
	}
	if ls.writer == t {
		ls.writer = nil
	}
	s.arrived = append(s.arrived, ls.waiters...)
	ls.waiters = nil
	cond.L.Unlock()
	// wait for a signal
	if s.condWait == nil {
		s.condWait = map[uintptr][]*Task{}
	}
	t.site = "cond-wait:" + site
	s.condWait[cid] = append(s.condWait[cid], t)
	s.mu.Unlock()
	<-t.wake
	if s.aborted.Load() {
		abortRelock(cond.L)
		runtime.Goexit()
	}
	// signalled and scheduled: take the lock again
	s.mu.Lock()
	for {
		if ls.writer == nil && len(ls.readers) == 0 {
			ls.writer = t
			t.heldW[lid]++
			t.held++
			s.mu.Unlock()
			cond.L.Lock()
			return true
		}
		if s.aborted.Load() {
			s.mu.Unlock()
			abortRelock(cond.L)
			runtime.Goexit()
		}
		t.site = "lock-wait:" + site
		ls.waiters = append(ls.waiters, t)
		s.mu.Unlock()
		<-t.wake
		if s.aborted.Load() {
			abortRelock(cond.L)
			runtime.Goexit()
		}
		s.mu.Lock()
	}
}

// abortRelock: a task torn down while it has given up a condition's lock will
// still run the caller's deferred Unlock; unlocking an unlocked mutex is a fatal
// error, so the lock is taken back if it is free (and left alone otherwise).
func abortRelock(l sync.Locker) {
	if tl, ok := l.(interface{ TryLock() bool }); ok {
		tl.TryLock()
	}
}

func (s *Sim) condSignalHook(site string, c interface{}, all bool) {
	g := goid()
	if g == s.rootG {
		return
	}
	cond := condOf(c)
	if cond == nil {
		return
	}
	cid := reflect.ValueOf(cond).Pointer()
	s.mu.Lock()
	defer s.mu.Unlock()
	q := s.condWait[cid]
	if len(q) == 0 {
		return
	}
	n := 1
	if all {
		n = len(q)
	}
	s.arrived = append(s.arrived, q[:n]...)
	s.condWait[cid] = q[n:]
}

// chanHook keeps tasks from blocking for real on a package-level buffered
// channel (created outside the bubble, hence invisible to synctest): while the
// channel cannot serve the operation the task waits in the simulator and is
// made schedulable again by the next completed operation on that channel.
func (s *Sim) chanHook(site string, ch interface{}, send bool, before bool) {
	g := goid()
	if g == s.rootG {
		return
	}
	v := reflect.ValueOf(ch)
	if v.Kind() != reflect.Chan || v.IsNil() || v.Cap() == 0 {
		return
	}
	id := v.Pointer()
	s.mu.Lock()
	t := s.tasks[g]
	if t == nil {
		t = s.adoptKnown(g)
	}
	if t == nil {
		s.mu.Unlock()
		return
	}
	if s.chanWait == nil {
		s.chanWait = map[uintptr][]*Task{}
	}
	if !before {
		s.arrived = append(s.arrived, s.chanWait[id]...)
		delete(s.chanWait, id)
		s.mu.Unlock()
		return
	}
	for {
		blocked := (send && v.Len() == v.Cap()) || (!send && v.Len() == 0)
		if !blocked {
			s.mu.Unlock()
			return
		}
		if s.aborted.Load() {
			s.mu.Unlock()
			runtime.Goexit()
		}
		s.LockWaits++
		t.site = "chan-wait:" + site
		s.chanWait[id] = append(s.chanWait[id], t)
		s.mu.Unlock()
		<-t.wake
		if s.aborted.Load() {
			runtime.Goexit()
		}
		s.mu.Lock()
	}
}

// Yield is a yield point for harness code running on a task (SimReader etc.).
func (s *Sim) Yield(site string) { s.hook(site) }

// SleepThenYield parks the calling task; when the scheduler next chooses it,
// the fake clock is first advanced by d.
func (s *Sim) SleepThenYield(d time.Duration, site string) {
	g := goid()
	s.mu.Lock()
	if t := s.tasks[g]; t != nil {
		t.sleep = d
	}
	s.mu.Unlock()
	s.hook(site)
}

// Go starts a harness client as a task. Must be called on the root goroutine
// inside the bubble before Run.
func (s *Sim) Go(fn func()) *Task {
	t := &Task{Path: []int{len(s.clients)}, Seq: len(s.all), wake: make(chan struct{}), Client: true}
	t.ID = pathID(t.Path)
	s.clients = append(s.clients, t)
	s.all = append(s.all, t)
	reg := make(chan struct{})
	go func() {
		g := goid()
		s.mu.Lock()
		t.goid = g
		s.tasks[g] = t
		s.mu.Unlock()
		rememberGoroutine(g, fmt.Sprintf("s%d-%s", s.serial, t.ID))
		close(reg)
		defer func() {
			// a panic that no instrumented function recovered (it was raised in code
			// the instrumenter leaves untouched) is a run outcome, not a dead worker
			if r := recover(); r != nil {
				s.mu.Lock()
				s.Panics = append(s.Panics, PanicRec{Task: t.ID, Site: "client", Value: fmt.Sprint(r)})
				s.mu.Unlock()
			}
			s.mu.Lock()
			t.Done = true
			s.mu.Unlock()
		}()
		s.hook("client:start")
		fn()
	}()
	<-reg
	return t
}

// GoConsumer starts a harness consumer task: a real goroutine that blocks in
// real receives (so that a polling sender can meet it) and yields before each
// one, which makes "when does the consumer receive" a scheduling decision.
func (s *Sim) GoConsumer(fn func()) *Task {
	t := s.Go(fn)
	t.Consumer = true
	return t
}

// AddActor registers a simulator-owned action.
func (s *Sim) AddActor(a *Actor) { s.actors = append(s.actors, a) }

// AllClientsDone reports whether every client goroutine has ended.
func (s *Sim) AllClientsDone() bool {
	s.mu.Lock()
	defer s.mu.Unlock()
	for _, c := range s.clients {
		if !c.Done {
			return false
		}
	}
	return true
}

// TasksCreated is the number of tasks (clients + spawned goroutines) seen.
func (s *Sim) TasksCreated() int { return len(s.all) }

type cand struct {
	t *Task
	a *Actor
}

func (c cand) id() string {
	if c.t != nil {
		return c.t.ID
	}
	return "@" + c.a.Name
}
func (c cand) consumer() bool { return c.a != nil || (c.t != nil && c.t.Consumer) }

func (c cand) site() string {
	if c.t != nil {
		return c.t.site
	}
	return "actor"
}

// Run drives the system until nothing is left to run, a budget is exceeded or
// the property stops it, then tears every task down.
func (s *Sim) Run() {
	simrt.Hook = s.hook
	simrt.PlainHook = s.plainHook
	simrt.ExitHook = s.exitHook
	simrt.SpawnHook = s.spawnHook
	simrt.PanicHook = s.panicHook
	simrt.LockHook = s.lockHook
	simrt.ChanHook = s.chanHook
	simrt.CondWaitHook = s.condWaitHook
	simrt.CondSignalHook = s.condSignalHook
	defer func() {
		simrt.Hook, simrt.SpawnHook, simrt.PanicHook, simrt.LockHook, simrt.ChanHook, simrt.CondWaitHook, simrt.CondSignalHook = nil, nil, nil, nil, nil, nil, nil
		simrt.PlainHook, simrt.ExitHook = nil, nil
	}()
	s.strat.init(s.T)
	s.Strategy = s.strat.name()
	for {
		s.wait()
		s.mu.Lock()
		// merge arrivals into the sorted parked list: the candidate order is a
		// function of task identities only, never of arrival order
		for _, a := range s.arrived {
			a.waitingSince = s.Steps
			i := sort.Search(len(s.parked), func(i int) bool { return pathLess(a.Path, s.parked[i].Path) })
			s.parked = append(s.parked, nil)
			copy(s.parked[i+1:], s.parked[i:])
			s.parked[i] = a
		}
		s.arrived = s.arrived[:0]
		cands := make([]cand, 0, len(s.parked)+len(s.actors))
		for _, t := range s.parked {
			cands = append(cands, cand{t: t})
		}
		live := len(s.all)
		mach := s.machErr
		s.mu.Unlock()
		if mach != "" {
			s.End = EndMachinery
			break
		}
		if live > s.MaxLive {
			s.MaxLive = live
		}
		if s.OnQuiesce != nil {
			if msg := s.OnQuiesce(); msg != "" {
				s.End, s.stopMsg = EndStopped, msg
				break
			}
		}
		for _, a := range s.actors {
			if !a.idle && a.Enabled() {
				cands = append(cands, cand{a: a})
			}
		}
		if len(s.parked) == 0 && len(cands) > 0 {
			// only simulator-owned actions are left: nothing else can change the
			// state, so an action that makes no progress now never will
			progressed := false
			for _, c := range cands {
				label, ok := c.a.Run()
				if ok {
					s.Steps++
					s.lastID = c.id()
					s.logEvent("@" + c.a.Name + "=" + label)
					progressed = true
					for _, a := range s.actors {
						a.idle = false
					}
					break
				}
				c.a.idle = true
			}
			if progressed {
				continue
			}
			cands = nil
		}
		if len(cands) == 0 {
			if s.AllClientsDone() {
				s.End = EndQuiescent
				break
			}
			if !s.idleSlept {
				// Nothing is schedulable, but a goroutine may be sleeping or waiting for a
				// timer: let the fake clock run (every goroutine including this one is then
				// durably blocked, so synctest advances it to the next timer) before
				// calling it a deadlock.
				s.idleSlept = true
				select {
				case <-s.arrivedCh: // stale signal
				default:
				}
				s.mu.Lock()
				n := len(s.arrived)
				s.mu.Unlock()
				if n == 0 {
					t0 := time.Now()
					tm := time.NewTimer(24 * time.Hour)
					select {
					case <-s.arrivedCh: // a sleeper woke up and parked at a yield
						tm.Stop()
					case <-tm.C:
					}
					d := time.Since(t0)
					s.SimTime += d
					s.IdleWaits++
					s.logEvent("clock+idle:" + d.String())
				}
				continue
			}
			s.End = EndDeadlock
			break
		}
		if s.Steps >= s.MaxSteps {
			s.End = EndBudget
			break
		}
		if len(s.all) > s.MaxTasks {
			s.End = EndTaskCap
			break
		}
		s.Steps++
		if len(cands) > 1 {
			s.Multi++
		}
		if s.TimeJitter && s.T.Draw(97) == 96 {
			// let simulated time pass although somebody could run: timers of the code
			// under test may fire early relative to everything else
			s.passTime(time.Duration(1+s.T.Draw(5000)) * time.Millisecond)
			continue
		}
		pick := s.strat.pick(s, cands)
		// bounded starvation: whatever the strategy, a candidate that has been schedulable
		// for 1000 decisions without being chosen is chosen now (correct code may
		// spin-wait for exactly the goroutine a strategy is starving)
		for i, c := range cands {
			since := 0
			if c.t != nil {
				since = c.t.waitingSince
			} else {
				since = c.a.waitingSince
			}
			if s.Steps-since > 1000 {
				pick = i
				break
			}
		}
		// fairness: whatever the strategy, nobody runs more than 300 decisions in a row
		// while somebody else could - a spin-wait loop in correct code must not be able
		// to starve the goroutine it is waiting for
		if cands[pick].id() == s.lastID {
			s.consec++
			if s.consec > 300 && len(cands) > 1 {
				o := s.T.Draw(len(cands) - 1)
				if o >= pick {
					o++
				}
				pick = o
				s.consec = 0
			}
		} else {
			s.consec = 0
		}
		c := cands[pick]
		s.idleSlept = false
		s.lastID = c.id()
		if c.t != nil {
			t := c.t
			s.mu.Lock()
			for i, p := range s.parked {
				if p == t {
					s.parked = append(s.parked[:i], s.parked[i+1:]...)
					break
				}
			}
			d := t.sleep
			t.sleep = 0
			s.mu.Unlock()
			if d > 0 {
				time.Sleep(d)
				s.SimTime += d
				s.logEvent("clock+" + d.String())
			}
			t.runs++
			t.burst = 0
			if len(cands) == 1 && !s.NoBurst {
				t.burst = 64
			}
			s.current = t
			s.logEvent(t.ID + "@" + t.site)
			for _, a := range s.actors {
				a.idle = false
			}
			t.wake <- struct{}{}
		} else {
			c.a.waitingSince = s.Steps
			r, ok := c.a.Run()
			s.logEvent("@" + c.a.Name + "=" + r)
			if ok {
				for _, a := range s.actors {
					a.idle = false
				}
			} else {
				c.a.idle = true
			}
		}
	}
	// teardown: nothing is ever released to run free
	s.aborted.Store(true)
	for round := 0; round < 1000; round++ {
		s.mu.Lock()
		ps := append(append([]*Task{}, s.parked...), s.arrived...)
		s.parked, s.arrived = nil, nil
		for _, ls := range s.locks {
			ps = append(ps, ls.waiters...)
			ls.waiters = nil
		}
		for id, ws := range s.chanWait {
			ps = append(ps, ws...)
			delete(s.chanWait, id)
		}
		for id, ws := range s.condWait {
			ps = append(ps, ws...)
			delete(s.condWait, id)
		}
		s.mu.Unlock()
		for _, t := range ps {
			t.wake <- struct{}{}
		}
		s.wait()
		s.mu.Lock()
		n := len(s.parked) + len(s.arrived)
		s.mu.Unlock()
		if n == 0 && len(ps) == 0 {
			break
		}
	}
}

// passTime blocks the scheduler for at most d of fake time, or until a task
// parks (a sleeper woke up and reached a yield).
func (s *Sim) passTime(d time.Duration) {
	select {
	case <-s.arrivedCh:
	default:
	}
	t0 := time.Now()
	tm := time.NewTimer(d)
	select {
	case <-s.arrivedCh:
		tm.Stop()
	case <-tm.C:
	}
	el := time.Since(t0)
	s.SimTime += el
	s.Jitters++
	s.logEvent("clock+jitter:" + el.String())
}

// Bubble runs f inside a fresh synctest bubble. It reports whether goroutines
// were left durably blocked when f returned (a leak), and any other panic of f.
func Bubble(t *testing.T, f func()) (leak bool, panicked interface{}) {
	defer func() {
		if r := recover(); r != nil {
			msg := fmt.Sprint(r)
			if strings.Contains(msg, "blocked goroutines remain") || strings.Contains(msg, "deadlock") {
				leak = true
				return
			}
			panicked = r
		}
	}()
	synctest.Test(t, func(*testing.T) {
		f()
		// from here synctest waits for the bubble's goroutines to end
		bubbleExiting.Store(true)
		waitSeq.Add(1)
	})
	bubbleExiting.Store(false)
	waitSeq.Add(1)
	return
}

// ScheduleHash hashes an arbitrary string (helper for distinct-case counting).
func HashString(s string) uint64 {
	h := fnv.New64a()
	h.Write([]byte(s))
	return h.Sum64()
}

// ---- stall watch -----------------------------------------------------------
//
// synctest.Wait only returns when every goroutine of the bubble is *durably*
// blocked. A goroutine blocked on an object created outside the bubble (a
// package-level channel used as a semaphore, say) or spinning without a yield
// is not, and the scheduler would sit in Wait forever. A goroutine outside
// every bubble watches for that with the real clock - which is used for
// nothing else, and never for a scheduling decision.

var (
	waitingSim    atomic.Pointer[Sim]
	waitSeq       atomic.Uint64 // incremented whenever the scheduler enters or leaves Wait
	inWait        atomic.Bool
	bubbleExiting atomic.Bool // the run has returned; synctest is waiting for its goroutines to end
	stallOnce     sync.Once
)

// StallInfo describes a scheduler that has not reached a quiescent point.
type StallInfo struct {
	Sim           *Sim
	Parked        int  // tasks parked at yields or waiting for modelled locks
	ActorsEnabled bool // a simulator-owned action is enabled
	ClientsDone   bool
	Steps         int
	Waited        time.Duration
	BubbleExit    bool // the run is over but goroutines it started neither ended nor blocked durably
}

func (s *Sim) wait() {
	waitingSim.Store(s)
	inWait.Store(true)
	waitSeq.Add(1)
	synctest.Wait()
	inWait.Store(false)
	waitSeq.Add(1)
}

// StartStallWatch starts the watcher (once per process, from outside any
// bubble: it reads the real clock). onStall is called at most once, on the
// watcher's goroutine, and is expected to end the process.
func StartStallWatch(limit time.Duration, onStall func(StallInfo)) {
	stallOnce.Do(func() {
		go func() {
			last := waitSeq.Load()
			lastChange := time.Now()
			for {
				time.Sleep(250 * time.Millisecond)
				cur := waitSeq.Load()
				if cur != last || !(inWait.Load() || bubbleExiting.Load()) {
					last, lastChange = cur, time.Now()
					continue
				}
				waited := time.Since(lastChange)
				if waited < limit {
					continue
				}
				if bubbleExiting.Load() {
					onStall(StallInfo{Sim: waitingSim.Load(), Parked: 1, Waited: waited, BubbleExit: true})
					return
				}
				s := waitingSim.Load()
				if s == nil {
					continue
				}
				s.mu.Lock()
				n := len(s.parked) + len(s.arrived)
				for _, ls := range s.locks {
					n += len(ls.waiters)
				}
				for _, ws := range s.chanWait {
					n += len(ws)
				}
				for _, ws := range s.condWait {
					n += len(ws)
				}
				done := true
				for _, c := range s.clients {
					if !c.Done {
						done = false
					}
				}
				s.mu.Unlock()
				en := false
				for _, a := range s.actors {
					if !a.idle && a.Enabled() {
						en = true
					}
				}
				onStall(StallInfo{Sim: s, Parked: n, ActorsEnabled: en, ClientsDone: done, Steps: s.Steps, Waited: waited})
				return
			}
		}()
	})
}
