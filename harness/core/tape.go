package core

// Tape is the single source of every random choice in a run: workload,
// swarm configuration, fault plan and every scheduling decision. In
// generation mode it is extended from a SplitMix64 stream and every drawn
// value is recorded (already reduced modulo the requested bound, so that a
// smaller recorded value always means a "simpler" choice). In replay mode the
// recorded values are returned (mod the bound) and an exhausted tape yields 0.
type Tape struct {
	vals   []uint32
	pos    int
	replay bool
	state  uint64
	extra  int
}

// NewTape returns a generating tape seeded with seed.
func NewTape(seed uint64) *Tape { return &Tape{state: seed} }

// ReplayTape returns a tape that replays vals and then yields zeros.
func ReplayTape(vals []uint32) *Tape {
	c := make([]uint32, len(vals))
	copy(c, vals)
	return &Tape{vals: c, replay: true}
}

// Reseed switches the generating stream (no effect on replay).
func (t *Tape) Reseed(seed uint64) { t.state = seed }

func (t *Tape) next() uint64 {
	t.state += 0x9E3779B97F4A7C15
	z := t.state
	z = (z ^ (z >> 30)) * 0xBF58476D1CE4E5B9
	z = (z ^ (z >> 27)) * 0x94D049BB133111EB
	return z ^ (z >> 31)
}

// Mix derives a sub-seed.
func Mix(a uint64, b ...uint64) uint64 {
	t := Tape{state: a}
	x := t.next()
	for _, v := range b {
		t.state = x ^ (v * 0xD6E8FEB86659FD93)
		x = t.next()
	}
	return x
}

// Draw returns a value in [0,n). n<=1 returns 0 without consuming the tape.
func (t *Tape) Draw(n int) int {
	if n <= 1 {
		return 0
	}
	var v uint32
	if t.pos < len(t.vals) {
		v = t.vals[t.pos] % uint32(n)
		t.vals[t.pos] = v
	} else if t.replay {
		// exhausted replay tape: zeros, but never without bound (a generator that
		// rejects the all-zero choice forever must not eat the machine)
		v = 0
		t.extra++
		if t.extra > 4000000 {
			panic("tape runaway: more than 4e6 draws beyond the end of a replayed tape")
		}
		t.vals = append(t.vals, 0)
	} else {
		v = uint32((t.next() >> 20) % uint64(n))
		t.vals = append(t.vals, v)
	}
	t.pos++
	return int(v)
}

// Range returns a value in [lo,hi].
func (t *Tape) Range(lo, hi int) int {
	if hi <= lo {
		return lo
	}
	return lo + t.Draw(hi-lo+1)
}

// Chance is true with probability pct/100 (a recorded 0 means false).
func (t *Tape) Chance(pct int) bool {
	if pct <= 0 {
		return false
	}
	return t.Draw(100) >= 100-pct
}

// Weighted picks an index with the given integer weights; index 0 is the
// "simplest" alternative by convention.
func (t *Tape) Weighted(w ...int) int {
	sum := 0
	for _, x := range w {
		sum += x
	}
	r := t.Draw(sum)
	for i, x := range w {
		if r < x {
			return i
		}
		r -= x
	}
	return len(w) - 1
}

// Used returns the values consumed so far.
func (t *Tape) Used() []uint32 {
	n := t.pos
	if n > len(t.vals) {
		n = len(t.vals)
	}
	c := make([]uint32, n)
	copy(c, t.vals[:n])
	return c
}

// Pos is the number of draws consumed.
func (t *Tape) Pos() int { return t.pos }
