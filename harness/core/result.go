package core

// Result is what one simulated run reports.
type Result struct {
	// Class is "" when the property held, "known:<finding id>" when the only
	// deviation is exactly the one predicted by a listed open finding, or
	// "violation:<clause>" otherwise. "machinery:<what>" is simulator trouble.
	Class  string `json:"class"`
	Detail string `json:"detail,omitempty"`
	// Scenario is the decoded, human-readable scenario (ops, faults, schedule).
	Scenario interface{} `json:"scenario,omitempty"`
	// ShapeKey identifies the scenario shape for distinct-case counting.
	ShapeKey   string           `json:"-"`
	Nontrivial bool             `json:"-"`
	LogHash    string           `json:"log_hash"`
	Steps      int              `json:"steps"`
	SimTimeNs  int64            `json:"sim_time_ns"`
	Strategy   string           `json:"strategy,omitempty"`
	Counters   map[string]int64 `json:"-"`
	Trace      []string         `json:"schedule,omitempty"`
}

// Count adds to a named counter (fault kinds fired, probes hit ...).
func (r *Result) Count(name string, n int64) {
	if r.Counters == nil {
		r.Counters = map[string]int64{}
	}
	r.Counters[name] += n
}
