package core

import "time"

// Shrink minimises a failing tape. test must re-execute the run from the given
// values and report whether the same violation class recurs. The result is the
// smallest tape found within the budget (ddmin-style chunk deletion, then
// zeroing and halving of single values).
func Shrink(vals []uint32, test func([]uint32) bool, maxExec int, maxWall time.Duration) ([]uint32, int) {
	start := time.Now() // wall clock used only for the budget, never inside a run
	execs := 0
	out := func() bool { return execs >= maxExec || time.Since(start) > maxWall }
	try := func(c []uint32) bool {
		if out() {
			return false
		}
		execs++
		return test(c)
	}
	cur := append([]uint32{}, vals...)
	// drop trailing zeros (an exhausted tape yields zeros anyway)
	trim := func(c []uint32) []uint32 {
		for len(c) > 0 && c[len(c)-1] == 0 {
			c = c[:len(c)-1]
		}
		return c
	}
	cur = trim(cur)
	// 1. truncation by bisection
	lo, hi := 0, len(cur)
	for lo < hi && !out() {
		mid := (lo + hi) / 2
		if try(cur[:mid]) {
			hi = mid
		} else {
			lo = mid + 1
		}
	}
	if hi < len(cur) && try(cur[:hi]) {
		cur = append([]uint32{}, cur[:hi]...)
	}
	improved := true
	for pass := 0; improved && pass < 6 && !out(); pass++ {
		improved = false
		// 2. chunk deletion
		for size := len(cur) / 2; size >= 1 && !out(); size /= 2 {
			for i := 0; i+size <= len(cur) && !out(); {
				c := append(append([]uint32{}, cur[:i]...), cur[i+size:]...)
				if try(c) {
					cur = c
					improved = true
				} else {
					i += size
				}
			}
		}
		// 3. zero, then halve, single values
		for i := 0; i < len(cur) && !out(); i++ {
			if cur[i] == 0 {
				continue
			}
			c := append([]uint32{}, cur...)
			c[i] = 0
			if try(c) {
				cur = c
				improved = true
				continue
			}
			for v := cur[i] / 2; v > 0 && v < cur[i] && !out(); v = v / 2 {
				c[i] = v
				if try(c) {
					cur = append([]uint32{}, c...)
					improved = true
				} else {
					break
				}
			}
		}
		cur = trim(cur)
	}
	return cur, execs
}
